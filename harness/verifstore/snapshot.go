package verifstore

import (
	"bytes"
	"context"
	"encoding/hex"
	"encoding/json"
	"fmt"
	"sort"
	"strings"

	sgbucket "github.com/couchbase/sg-bucket"
	"github.com/couchbaselabs/rosmar"
)

// Doc is one row of the bucket as rosmar stores it.
type Doc struct {
	Store     string            // "scope.collection"
	Key       string
	Body      []byte            // raw value; nil when the row has no value (deleted)
	HasBody   bool              // false for a tombstone / value-less row
	Xattrs    map[string][]byte // raw JSON value per xattr name (user and system), nil if none
	Tombstone bool              // rosmar's tombstone flag
	IsJSON    bool
	Exp       uint32 // absolute expiry (0 = none)
	Cas       uint64 // not part of Same
	RevSeqNo  uint64 // not part of Same
}

// ID is "store/key".
func (d Doc) ID() string { return d.Store + "/" + d.Key }

// Live reports whether the row has a value.
func (d Doc) Live() bool { return d.HasBody }

// Same compares everything except CAS and revSeqNo: store, key, value presence and bytes, every
// xattr byte for byte, tombstone flag, expiry.
func (d Doc) Same(o Doc) bool {
	if d.Store != o.Store || d.Key != o.Key || d.HasBody != o.HasBody || d.Tombstone != o.Tombstone || d.Exp != o.Exp {
		return false
	}
	if !bytes.Equal(d.Body, o.Body) || len(d.Xattrs) != len(o.Xattrs) {
		return false
	}
	for k, v := range d.Xattrs {
		ov, ok := o.Xattrs[k]
		if !ok || !bytes.Equal(v, ov) {
			return false
		}
	}
	return true
}

// XattrNames returns the sorted xattr names.
func (d Doc) XattrNames() []string {
	names := make([]string, 0, len(d.Xattrs))
	for k := range d.Xattrs {
		names = append(names, k)
	}
	sort.Strings(names)
	return names
}

// String renders the row canonically (CAS excluded).
func (d Doc) String() string {
	var sb strings.Builder
	fmt.Fprintf(&sb, "%s", d.ID())
	if d.HasBody {
		fmt.Fprintf(&sb, " body=%s", clip(printable(d.Body), 400))
	} else {
		sb.WriteString(" body=<none>")
	}
	if d.Tombstone {
		sb.WriteString(" tombstone")
	}
	if d.Exp != 0 {
		fmt.Fprintf(&sb, " exp=%d", d.Exp)
	}
	for _, n := range d.XattrNames() {
		fmt.Fprintf(&sb, " %s=%s", n, clip(printable(d.Xattrs[n]), 600))
	}
	return sb.String()
}

func printable(b []byte) string {
	for _, c := range b {
		if c < 0x20 || c > 0x7e {
			return "0x" + hex.EncodeToString(b)
		}
	}
	return string(b)
}

func clip(s string, n int) string {
	if len(s) > n {
		return s[:n] + fmt.Sprintf("...(%d bytes)", len(s))
	}
	return s
}

// BucketSnapshot is a full listing of the bucket, sorted by (store, key).
type BucketSnapshot struct {
	Docs []Doc
}

// Map indexes the snapshot by Doc.ID().
func (s *BucketSnapshot) Map() map[string]Doc {
	m := make(map[string]Doc, len(s.Docs))
	for _, d := range s.Docs {
		m[d.ID()] = d
	}
	return m
}

// Get returns the row store/key.
func (s *BucketSnapshot) Get(store, key string) (Doc, bool) {
	i := sort.Search(len(s.Docs), func(i int) bool {
		d := s.Docs[i]
		return d.Store > store || (d.Store == store && d.Key >= key)
	})
	if i < len(s.Docs) && s.Docs[i].Store == store && s.Docs[i].Key == key {
		return s.Docs[i], true
	}
	return Doc{}, false
}

// DiffSnapshots lists the rows that differ (per Doc.Same) between before and after, as
// "+ row" (only after), "- row" (only before), "~ before => after". Rows for which ignore returns true
// (called with whichever side exists; may be nil) are skipped.
func DiffSnapshots(before, after *BucketSnapshot, ignore func(Doc) bool) []string {
	bm, am := before.Map(), after.Map()
	ids := make([]string, 0, len(bm)+len(am))
	for id := range bm {
		ids = append(ids, id)
	}
	for id := range am {
		if _, ok := bm[id]; !ok {
			ids = append(ids, id)
		}
	}
	sort.Strings(ids)
	var out []string
	for _, id := range ids {
		b, inB := bm[id]
		a, inA := am[id]
		if ignore != nil {
			if inA && ignore(a) || inB && ignore(b) {
				continue
			}
		}
		switch {
		case inB && !inA:
			out = append(out, "- "+b.String())
		case inA && !inB:
			out = append(out, "+ "+a.String())
		case !a.Same(b):
			out = append(out, "~ "+b.String()+"  =>  "+a.String())
		}
	}
	return out
}

type snapRow struct {
	S  string  `json:"s"`
	C  string  `json:"c"`
	K  string  `json:"k"`
	V  *string `json:"v"`
	X  *string `json:"x"`
	T  int     `json:"t"`
	J  int     `json:"j"`
	E  uint32  `json:"e"`
	Ca uint64  `json:"ca"`
	R  uint64  `json:"r"`
}

// Snapshot lists every row of every data store of the bucket in one SQL statement (atomic), through
// rosmar's exported Query API. The context does not need to be (and should not be) marked: the
// listing is not a traced operation.
func (b *Bucket) Snapshot(ctx context.Context) (*BucketSnapshot, error) {
	c, ok := b.rosmar.DefaultDataStore(ctx).(*rosmar.Collection)
	if !ok || c == nil {
		return nil, fmt.Errorf("verifstore: no rosmar default collection")
	}
	// every selected column must be JSON text (rosmar concatenates them into a JSON object); NULL
	// columns are omitted. Blobs and strings travel hex encoded.
	const stmt = `SELECT '"'||hex(c.scope)||'"' AS s, '"'||hex(c.name)||'"' AS c, '"'||hex(d.key)||'"' AS k,
		CASE WHEN d.value IS NULL THEN NULL ELSE '"'||hex(d.value)||'"' END AS v,
		CASE WHEN d.xattrs IS NULL THEN NULL ELSE '"'||hex(d.xattrs)||'"' END AS x,
		ifnull(d.tombstone,0) AS t, ifnull(d.isJSON,0) AS j, ifnull(d.exp,0) AS e, d.cas AS ca, ifnull(d.revSeqNo,0) AS r
		FROM documents d JOIN collections c ON d.collection = c.id`
	it, err := c.Query(ctx, sgbucket.SQLiteLanguage, stmt, nil, sgbucket.RequestPlus, true)
	if err != nil {
		return nil, err
	}
	snap := &BucketSnapshot{}
	for {
		raw := it.NextBytes(ctx)
		if raw == nil {
			break
		}
		var r snapRow
		if err := json.Unmarshal(raw, &r); err != nil {
			_ = it.Close(ctx)
			return nil, fmt.Errorf("verifstore: snapshot row %s: %w", raw, err)
		}
		scope, err1 := hex.DecodeString(r.S)
		name, err2 := hex.DecodeString(r.C)
		key, err3 := hex.DecodeString(r.K)
		if err1 != nil || err2 != nil || err3 != nil {
			_ = it.Close(ctx)
			return nil, fmt.Errorf("verifstore: snapshot row %s: bad hex", raw)
		}
		d := Doc{Store: string(scope) + "." + string(name), Key: string(key), Tombstone: r.T != 0, IsJSON: r.J != 0, Exp: r.E, Cas: r.Ca, RevSeqNo: r.R}
		if r.V != nil {
			body, err := hex.DecodeString(*r.V)
			if err != nil {
				_ = it.Close(ctx)
				return nil, fmt.Errorf("verifstore: snapshot row %s: bad hex value", raw)
			}
			if body == nil {
				body = []byte{}
			}
			d.Body, d.HasBody = body, true
		}
		if r.X != nil {
			xb, err := hex.DecodeString(*r.X)
			if err != nil {
				_ = it.Close(ctx)
				return nil, fmt.Errorf("verifstore: snapshot row %s: bad hex xattrs", raw)
			}
			if len(xb) > 0 && string(xb) != "null" {
				var xm map[string]json.RawMessage
				if err := json.Unmarshal(xb, &xm); err != nil {
					_ = it.Close(ctx)
					return nil, fmt.Errorf("verifstore: snapshot row %s/%s: unreadable xattrs %s: %w", d.Store, d.Key, xb, err)
				}
				if len(xm) > 0 {
					d.Xattrs = make(map[string][]byte, len(xm))
					for k, v := range xm {
						d.Xattrs[k] = []byte(v)
					}
				}
			}
		}
		snap.Docs = append(snap.Docs, d)
	}
	if err := it.Close(ctx); err != nil {
		return nil, err
	}
	sort.Slice(snap.Docs, func(i, j int) bool {
		a, b := snap.Docs[i], snap.Docs[j]
		if a.Store != b.Store {
			return a.Store < b.Store
		}
		return a.Key < b.Key
	})
	return snap, nil
}

// rowFlags reads the tombstone flag and CAS of one row.
func (d *DataStore) rowFlags(ctx context.Context, key string) (tombstone bool, cas uint64, found bool, err error) {
	stmt := fmt.Sprintf(`SELECT ifnull(tombstone,0) AS t, cas AS ca FROM documents WHERE collection=%d AND key=$key`, d.Collection.GetCollectionID()+1)
	it, err := d.Collection.Query(ctx, sgbucket.SQLiteLanguage, stmt, map[string]any{"key": key}, sgbucket.RequestPlus, true)
	if err != nil {
		return false, 0, false, err
	}
	raw := it.NextBytes(ctx)
	if cerr := it.Close(ctx); cerr != nil {
		return false, 0, false, cerr
	}
	if raw == nil {
		return false, 0, false, nil
	}
	var r struct {
		T  int    `json:"t"`
		Ca uint64 `json:"ca"`
	}
	if err := json.Unmarshal(raw, &r); err != nil {
		return false, 0, false, fmt.Errorf("verifstore: row flags %s: %w", raw, err)
	}
	return r.T != 0, r.Ca, true, nil
}
