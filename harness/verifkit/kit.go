// Package verifkit is the small runtime shared by every injected harness file (it exists only in
// the build overlay, never in /repo). It records what each generated case looked like, writes the
// per-test summary the driver turns into evidence, prints the VERIF-VIOLATION / KNOWN-FINDING
// lines the driver understands, and reads the committed known-findings file.
package verifkit

import (
	"encoding/binary"
	"encoding/json"
	"fmt"
	"hash/fnv"
	"os"
	"runtime/debug"
	"sort"
	"strconv"
	"strings"
	"sync"
)

// TB is the subset of testing.TB / *rapid.T the kit needs.
type TB interface {
	Fatalf(format string, args ...any)
	Logf(format string, args ...any)
}

// ---------------------------------------------------------------------------------------------
// environment

func Tier() string {
	if t := os.Getenv("VERIF_TIER"); t != "" {
		return t
	}
	return "quick"
}

func Thorough() bool { return Tier() == "thorough" }

// Pick returns q in the quick tier and th in the thorough tier.
func Pick(q, th int) int {
	if Thorough() {
		return th
	}
	return q
}

// Param returns an integer job parameter handed over by the driver (VERIF_P_<name>), or def.
func Param(name string, def int) int {
	if v := os.Getenv("VERIF_P_" + name); v != "" {
		if n, err := strconv.Atoi(v); err == nil {
			return n
		}
	}
	return def
}

func Seed() uint64 {
	n, _ := strconv.ParseUint(os.Getenv("VERIF_SEED"), 10, 64)
	return n
}

// Shard returns (index, count) for bounded-exhaustive enumerators that are split over processes.
func Shard() (int, int) {
	s := os.Getenv("VERIF_SHARD")
	if s == "" {
		return 0, 1
	}
	parts := strings.Split(s, "/")
	if len(parts) != 2 {
		return 0, 1
	}
	i, _ := strconv.Atoi(parts[0])
	n, _ := strconv.Atoi(parts[1])
	if n <= 0 {
		return 0, 1
	}
	return i, n
}

// ---------------------------------------------------------------------------------------------
// case recorder

type Rec struct {
	ID   string
	Test string

	mu           sync.Mutex
	evals        int64
	bulkDistinct int64
	hashes       map[uint64]struct{}
	classes      map[string]int64
	excluded     map[string]int64
	samples      map[uint64]string // non-trivial samples with the smallest hashes (deterministic pick)
	trivSample   string
	inconclusive int64
	exhaustive   bool
	flushed      bool
}

func New(id, test string) *Rec {
	return &Rec{ID: id, Test: test, hashes: map[uint64]struct{}{}, classes: map[string]int64{}, excluded: map[string]int64{}, samples: map[uint64]string{}}
}

func Hash(s string) uint64 {
	h := fnv.New64a()
	_, _ = h.Write([]byte(s))
	return h.Sum64()
}

const maxSamples = 4
const maxSampleLen = 900

func clip(s string) string {
	if len(s) > maxSampleLen {
		return s[:maxSampleLen] + "…"
	}
	return s
}

// Case records one executed generated case. render is the canonical rendering of the case (its
// operation list with arguments); nontrivial says whether the case met the property's stated rule.
func (r *Rec) Case(render string, nontrivial bool, classes ...string) {
	r.mu.Lock()
	defer r.mu.Unlock()
	r.evals++
	for _, c := range classes {
		r.classes[c]++
	}
	if !nontrivial {
		if r.trivSample == "" {
			r.trivSample = clip(render)
		}
		return
	}
	h := Hash(render)
	if _, ok := r.hashes[h]; ok {
		return
	}
	r.hashes[h] = struct{}{}
	if len(r.samples) < maxSamples {
		r.samples[h] = clip(render)
		return
	}
	var maxH uint64
	for k := range r.samples {
		if k > maxH {
			maxH = k
		}
	}
	if h < maxH {
		delete(r.samples, maxH)
		r.samples[h] = clip(render)
	}
}

// Bulk records cases of a bounded-exhaustive enumerator whose tuples are distinct by construction.
func (r *Rec) Bulk(evals, distinctNontrivial int64) {
	r.mu.Lock()
	r.evals += evals
	r.bulkDistinct += distinctNontrivial
	r.mu.Unlock()
}

// Sample stores a rendered case as a sample without counting it (used by enumerators).
func (r *Rec) Sample(render string) {
	r.mu.Lock()
	if len(r.samples) < maxSamples {
		r.samples[Hash(render)] = clip(render)
	}
	r.mu.Unlock()
}

func (r *Rec) Class(name string, n int64) {
	r.mu.Lock()
	r.classes[name] += n
	r.mu.Unlock()
}

// Excluded counts a generated shape that was left out by construction because it is a listed
// known finding.
func (r *Rec) Excluded(sig string) {
	r.mu.Lock()
	r.excluded[sig]++
	r.mu.Unlock()
}

func (r *Rec) Inconclusive() {
	r.mu.Lock()
	r.inconclusive++
	r.mu.Unlock()
}

func (r *Rec) SetExhaustive() {
	r.mu.Lock()
	r.exhaustive = true
	r.mu.Unlock()
}

type summary struct {
	ID           string           `json:"id"`
	Test         string           `json:"test"`
	Shard        string           `json:"shard,omitempty"`
	Evaluations  int64            `json:"evaluations"`
	BulkDistinct int64            `json:"bulk_distinct"`
	HashDistinct int64            `json:"hash_distinct"`
	Classes      map[string]int64 `json:"classes,omitempty"`
	Excluded     map[string]int64 `json:"excluded,omitempty"`
	Samples      []string         `json:"samples,omitempty"`
	Inconclusive int64            `json:"inconclusive,omitempty"`
	Exhaustive   bool             `json:"exhaustive,omitempty"`
	HashFile     string           `json:"hash_file,omitempty"`
}

// Flush appends this recorder's summary to $VERIF_STATS_OUT (one JSON line) and its distinct
// non-trivial hashes to a side file so the driver can union them across shards. Call it with defer
// from the test function.
func (r *Rec) Flush() {
	r.mu.Lock()
	defer r.mu.Unlock()
	if r.flushed {
		return
	}
	r.flushed = true
	out := os.Getenv("VERIF_STATS_OUT")
	if out == "" {
		return
	}
	s := summary{ID: r.ID, Test: r.Test, Shard: os.Getenv("VERIF_SHARD"), Evaluations: r.evals, BulkDistinct: r.bulkDistinct,
		HashDistinct: int64(len(r.hashes)), Classes: r.classes, Excluded: r.excluded, Inconclusive: r.inconclusive, Exhaustive: r.exhaustive}
	keys := make([]uint64, 0, len(r.samples))
	for k := range r.samples {
		keys = append(keys, k)
	}
	sort.Slice(keys, func(i, j int) bool { return keys[i] < keys[j] })
	for _, k := range keys {
		s.Samples = append(s.Samples, r.samples[k])
	}
	if len(s.Samples) == 0 && r.trivSample != "" {
		s.Samples = append(s.Samples, "(trivial) "+r.trivSample)
	}
	if len(r.hashes) > 0 {
		hf := fmt.Sprintf("%s.%s.%d.hashes", out, r.Test, os.Getpid())
		buf := make([]byte, 0, 8*len(r.hashes))
		for h := range r.hashes {
			buf = binary.LittleEndian.AppendUint64(buf, h)
		}
		if err := os.WriteFile(hf, buf, 0o644); err == nil {
			s.HashFile = hf
		}
	}
	b, _ := json.Marshal(s)
	f, err := os.OpenFile(out, os.O_APPEND|os.O_CREATE|os.O_WRONLY, 0o644)
	if err != nil {
		return
	}
	_, _ = f.Write(append(b, '\n'))
	_ = f.Close()
}

// ---------------------------------------------------------------------------------------------
// outcome lines

var outMu sync.Mutex

func emit(prefix string, v any) {
	b, _ := json.Marshal(v)
	outMu.Lock()
	fmt.Fprintf(os.Stdout, "\n%s %s\n", prefix, b)
	outMu.Unlock()
}

// Violation prints the machine-readable violation line and fails the (rapid or plain) test.
// During shrinking rapid re-runs the property, so several lines may be printed; the driver keeps
// the last one, which belongs to the minimal case.
func Violation(t TB, id, test, caseRender, format string, args ...any) {
	msg := fmt.Sprintf(format, args...)
	v := map[string]any{"property": id, "test": test, "what": msg, "case": caseRender}
	emit("VERIF-VIOLATION", v)
	// The machine-readable line is repeated inside the failure message: the stdout of a native-fuzz
	// worker process is not forwarded, its failure message is.
	b, _ := json.Marshal(v)
	t.Fatalf("VIOLATION %s: %s\ncase: %s\nVERIF-VIOLATION %s\n", id, msg, caseRender, b)
}

// KnownFinding prints the KNOWN-FINDING line for a listed finding that still reproduces.
func KnownFinding(id, sig, what string) {
	outMu.Lock()
	fmt.Fprintf(os.Stdout, "\nKNOWN-FINDING: property=%s signature=%s %s\n", id, sig, what)
	outMu.Unlock()
}

// Note prints an informational line the driver copies into the evidence.
func Note(id, format string, args ...any) {
	outMu.Lock()
	fmt.Fprintf(os.Stdout, "\nVERIF-NOTE %s %s\n", id, fmt.Sprintf(format, args...))
	outMu.Unlock()
}

// InconclusiveLine reports an infrastructure problem (a bounded wait expired, a helper failed).
func InconclusiveLine(id, format string, args ...any) {
	outMu.Lock()
	fmt.Fprintf(os.Stdout, "\nVERIF-INCONCLUSIVE %s %s\n", id, fmt.Sprintf(format, args...))
	outMu.Unlock()
}

// Guard runs f and turns a panic of the code under test into a violation. rapid's own control
// panics (Fatalf / Skip inside a property) are passed through untouched.
func Guard(t TB, id, test string, render func() string, f func()) {
	defer func() {
		if p := recover(); p != nil {
			tn := fmt.Sprintf("%T", p)
			if strings.HasPrefix(tn, "rapid.") || strings.HasPrefix(tn, "*rapid.") {
				panic(p)
			}
			if _, ok := p.(InconclusiveErr); ok {
				panic(p)
			}
			Violation(t, id, test, render(), "panic: %v\n%s", p, clipStack(debug.Stack()))
		}
	}()
	f()
}

func clipStack(b []byte) string {
	s := string(b)
	if len(s) > 3000 {
		s = s[:3000]
	}
	return s
}

// InconclusiveErr is panicked/returned by harness waits whose wall-clock bound expired.
type InconclusiveErr struct{ Msg string }

func (e InconclusiveErr) Error() string { return "inconclusive: " + e.Msg }

// ---------------------------------------------------------------------------------------------
// known findings

type Finding struct {
	Property  string `json:"property"`
	Signature string `json:"signature"`
	Status    string `json:"status"` // "open" or "fixed"
	What      string `json:"what"`
	Commit    string `json:"commit,omitempty"`
}

var (
	knownOnce sync.Once
	known     []Finding
)

func loadKnown() {
	for _, p := range strings.Split(os.Getenv("VERIF_KNOWN"), string(os.PathListSeparator)) {
		if p == "" {
			continue
		}
		b, err := os.ReadFile(p)
		if err != nil {
			continue
		}
		var f struct {
			Findings []Finding `json:"findings"`
		}
		if json.Unmarshal(b, &f) == nil {
			known = append(known, f.Findings...)
		}
	}
}

// Known reports whether (property, signature) is listed as an OPEN finding. Fixed entries suppress
// nothing.
func Known(id, sig string) bool {
	knownOnce.Do(loadKnown)
	for _, f := range known {
		if f.Property == id && f.Signature == sig && f.Status == "open" {
			return true
		}
	}
	return false
}

func KnownWhat(id, sig string) string {
	knownOnce.Do(loadKnown)
	for _, f := range known {
		if f.Property == id && f.Signature == sig {
			return f.What
		}
	}
	return ""
}
