package rest

// C19 — document bodies come back exactly as written on every path (REST write paths, import;
// REST read paths). Injected into package rest by the /verif driver; never part of /repo.

import (
	"bytes"
	"context"
	"fmt"
	"io"
	"mime"
	"mime/multipart"
	"net/http"
	"net/http/httptest"
	"net/url"
	"strconv"
	"strings"
	"testing"
	"time"

	"github.com/couchbase/sync_gateway/base"
	kit "github.com/couchbase/sync_gateway/verifkit"
	"pgregory.net/rapid"
)

const vfC19SyncFn = `function(doc, oldDoc, meta) { channel("c19"); }`

// vfC19WaitBound bounds every harness wait; expiry is INCONCLUSIVE, never a violation.
const vfC19WaitBound = 45 * time.Second

// vfC19Added are the documented reserved properties the gateway may add to a returned body.
var vfC19Added = map[string]bool{"_id": true, "_rev": true, "_cv": true, "_revisions": true, "_attachments": true, "_exp": true, "_deleted": true, "_removed": true}

type vfC19Env struct {
	t     *testing.T
	rt    *RestTester
	ks    string
	ctx   context.Context
	n     int
	since string
	test  string

	lastRaw map[string]string // last text written externally per document (auto-import path)
}

func vfC19NewEnv(t *testing.T, test string, autoImport bool, mutate func(c *RestTesterConfig)) *vfC19Env {
	cfg := &RestTesterConfig{SyncFn: vfC19SyncFn, AutoImport: base.Ptr(autoImport), GuestEnabled: true}
	if mutate != nil {
		mutate(cfg)
	}
	rt := NewRestTester(t, cfg)
	_ = rt.GetDatabase()
	return &vfC19Env{t: t, rt: rt, ks: rt.GetSingleKeyspace(), ctx: rt.Context(), since: "0", test: test, lastRaw: map[string]string{}}
}

func (e *vfC19Env) Close() { e.rt.Close() }

type vfC19Resp struct {
	Code int
	Body []byte
	Hdr  http.Header
}

// do sends an admin request to the single keyspace; path starts after the keyspace ("/doc?rev=…").
func (e *vfC19Env) do(method, path, body string, hdr map[string]string) vfC19Resp {
	rq := Request(method, "/"+e.ks+path, body)
	for k, v := range hdr {
		rq.Header.Set(k, v)
	}
	rec := httptest.NewRecorder()
	e.rt.TestAdminHandler().ServeHTTP(rec, rq)
	return vfC19Resp{Code: rec.Code, Body: rec.Body.Bytes(), Hdr: rec.Header()}
}

// document ids are not what this property is about: URL-safe after escaping, no '%' or '+'
var vfC19IDSuffix = []string{"", "", "", "x", "A-Z_0", "é", "a b", "q\"q", "日本", "semi;colon", "_underscore"}

func (e *vfC19Env) newDocID(t *rapid.T) string {
	e.n++
	return fmt.Sprintf("c19-%d%s", e.n, rapid.SampledFrom(vfC19IDSuffix).Draw(t, "idsuffix"))
}

func vfC19Path(docID string) string { return "/" + url.PathEscape(docID) }

// vfC19Rev is one written revision of the case's document.
type vfC19Rev struct {
	RevID   string
	Body    *vfC19Val // what the client wrote, without the may-set properties it added for the path
	Text    string    // the text sent
	Path    string    // write path name
	HasExp  bool
	Deleted bool // a tombstone written by DELETE: comes back as {} plus _deleted:true
	Feature vfC19Features
	Escaped bool
}

// withExtras returns body plus path-specific reserved members (placed by the style's key shuffle).
func vfC19WithExtras(body *vfC19Val, extras ...any) *vfC19Val {
	o := vfC19Obj()
	for i, k := range body.Keys {
		o.Set(k, body.Vals[i])
	}
	for i := 0; i+1 < len(extras); i += 2 {
		o.Set(extras[i].(string), extras[i+1].(*vfC19Val))
	}
	return o
}

func vfC19Revisions(gen int, digests ...string) *vfC19Val {
	ids := &vfC19Val{Kind: 'a'}
	for _, d := range digests {
		ids.Vals = append(ids.Vals, vfC19Str(d))
	}
	return vfC19Obj().Set("start", vfC19Num(strconv.Itoa(gen))).Set("ids", ids)
}

func vfC19RevDigest(rev string) string {
	if i := strings.Index(rev, "-"); i >= 0 {
		return rev[i+1:]
	}
	return rev
}

func vfC19RevGen(rev string) int {
	if i := strings.Index(rev, "-"); i >= 0 {
		n, _ := strconv.Atoi(rev[:i])
		return n
	}
	return 0
}

type vfC19WriteResult struct {
	Code   int
	RevID  string
	DocID  string
	Raw    []byte
	Reason string
}

var vfC19WritePaths = []string{"PUT", "POST", "bulk", "bulk-noedits", "PUT-noedits", "import"}

// write performs one write of body to docID through the named path. parent is the revision to
// update ("" = create). forceRev is the revision id to use on the new_edits=false paths.
func (e *vfC19Env) write(path, docID string, body *vfC19Val, st *vfC19Style, parent, forceRev string, exp *vfC19Val, ops *[]string) (res vfC19WriteResult, text string, escaped bool) {
	var extras []any
	if exp != nil {
		extras = append(extras, "_exp", exp)
	}
	ser := func(v *vfC19Val) string {
		s, esc := vfC19SerDoc(v, st)
		escaped = esc
		return s
	}
	parse := func(r vfC19Resp, wantCode int) {
		res.Code, res.Raw = r.Code, r.Body
		if r.Code != wantCode {
			res.Reason = string(r.Body)
			return
		}
		v, err := vfC19Decode(r.Body)
		if err != nil || v.Kind != 'o' {
			res.Reason = fmt.Sprintf("undecodable write response %s: %v", r.Body, err)
			res.Code = -1
			return
		}
		if x := v.Get("rev"); x != nil {
			res.RevID = x.Str
		}
		if x := v.Get("id"); x != nil {
			res.DocID = x.Str
		}
	}
	res.DocID = docID
	switch path {
	case "PUT":
		q := ""
		if parent != "" {
			if st.next(2) == 0 {
				q = "?rev=" + url.QueryEscape(parent)
			} else {
				extras = append(extras, "_rev", vfC19Str(parent))
			}
		}
		if st.next(3) == 0 {
			extras = append(extras, "_id", vfC19Str(docID))
		}
		text = ser(vfC19WithExtras(body, extras...))
		*ops = append(*ops, fmt.Sprintf("PUT %s%s %s", vfC19Path(docID), q, text))
		parse(e.do("PUT", vfC19Path(docID)+q, text, nil), 201)
	case "POST":
		extras = append(extras, "_id", vfC19Str(docID))
		text = ser(vfC19WithExtras(body, extras...))
		*ops = append(*ops, fmt.Sprintf("POST / %s", text))
		parse(e.do("POST", "/", text, nil), 200)
	case "bulk", "bulk-noedits":
		extras = append(extras, "_id", vfC19Str(docID))
		if path == "bulk" {
			if parent != "" {
				extras = append(extras, "_rev", vfC19Str(parent))
			}
		} else {
			extras = append(extras, "_rev", vfC19Str(forceRev))
			if parent != "" {
				extras = append(extras, "_revisions", vfC19Revisions(vfC19RevGen(forceRev), vfC19RevDigest(forceRev), vfC19RevDigest(parent)))
			} else {
				extras = append(extras, "_revisions", vfC19Revisions(vfC19RevGen(forceRev), vfC19RevDigest(forceRev)))
			}
		}
		docs := &vfC19Val{Kind: 'a', Vals: []*vfC19Val{vfC19WithExtras(body, extras...)}}
		rq := vfC19Obj().Set("docs", docs)
		if path == "bulk-noedits" {
			rq.Set("new_edits", &vfC19Val{Kind: 'f'})
		} else if st.next(2) == 0 {
			rq.Set("new_edits", &vfC19Val{Kind: 't'})
		}
		text = ser(rq)
		*ops = append(*ops, fmt.Sprintf("POST /_bulk_docs %s", text))
		r := e.do("POST", "/_bulk_docs", text, nil)
		res.Code, res.Raw = r.Code, r.Body
		if r.Code != 201 {
			res.Reason = string(r.Body)
			return
		}
		v, err := vfC19Decode(r.Body)
		if err != nil || v.Kind != 'a' || len(v.Vals) != 1 || v.Vals[0].Kind != 'o' {
			res.Code, res.Reason = -1, fmt.Sprintf("undecodable _bulk_docs response %s: %v", r.Body, err)
			return
		}
		row := v.Vals[0]
		if x := row.Get("error"); x != nil {
			res.Code = 0
			if s := row.Get("status"); s != nil {
				res.Code, _ = strconv.Atoi(s.Str)
			}
			res.Reason = string(r.Body)
			return
		}
		if x := row.Get("rev"); x != nil {
			res.RevID = x.Str
		}
		if path == "bulk-noedits" {
			// the row reports the document's current (winning) revision, which is not the written one
			// when the written revision loses against an existing leaf
			res.RevID = forceRev
		}
	case "PUT-noedits":
		extras = append(extras, "_rev", vfC19Str(forceRev))
		if parent != "" {
			extras = append(extras, "_revisions", vfC19Revisions(vfC19RevGen(forceRev), vfC19RevDigest(forceRev), vfC19RevDigest(parent)))
		} else {
			extras = append(extras, "_revisions", vfC19Revisions(vfC19RevGen(forceRev), vfC19RevDigest(forceRev)))
		}
		text = ser(vfC19WithExtras(body, extras...))
		*ops = append(*ops, fmt.Sprintf("PUT %s?new_edits=false %s", vfC19Path(docID), text))
		parse(e.do("PUT", vfC19Path(docID)+"?new_edits=false", text, nil), 201)
	case "import":
		text = ser(body)
		*ops = append(*ops, fmt.Sprintf("external SetRaw %q %s; GET (on-demand import)", docID, text))
		if err := e.rt.GetSingleDataStore().SetRaw(e.ctx, docID, 0, nil, []byte(text)); err != nil {
			res.Code, res.Reason = -1, "SetRaw: "+err.Error()
			return
		}
		r := e.do("GET", vfC19Path(docID), "", nil)
		res.Code, res.Raw = r.Code, r.Body
		if r.Code != 200 {
			res.Reason = string(r.Body)
			return
		}
		v, err := vfC19Decode(r.Body)
		if err != nil || v.Kind != 'o' || v.Get("_rev") == nil {
			res.Code, res.Reason = -1, fmt.Sprintf("undecodable import GET response %s: %v", r.Body, err)
			return
		}
		res.RevID = v.Get("_rev").Str
		res.Code = 201
	case "autoimport":
		// external write picked up by the import feed (no request touches the document meanwhile);
		// the new revision id is learnt from the changes feed
		text = ser(body)
		*ops = append(*ops, fmt.Sprintf("external SetRaw %q %s; (auto-import)", docID, text))
		if parent != "" && e.lastRaw[docID] == text {
			// byte-identical external rewrite: not a new revision (the import recognises its own body)
			*ops = append(*ops, "(identical bytes: no new revision expected)")
			res.Code, res.RevID = 201, parent
			return
		}
		if err := e.rt.GetSingleDataStore().SetRaw(e.ctx, docID, 0, nil, []byte(text)); err != nil {
			res.Code, res.Reason = -1, "SetRaw: "+err.Error()
			return
		}
		e.lastRaw[docID] = text
		deadline := time.Now().Add(vfC19WaitBound)
		for res.RevID == "" {
			r := e.do("GET", "/_changes?since="+url.QueryEscape(e.since), "", nil)
			if v, err := vfC19Decode(r.Body); err == nil && r.Code == 200 && v.Kind == 'o' && v.Get("results") != nil {
				for _, row := range v.Get("results").Vals {
					if id := row.Get("id"); id != nil && id.Str == docID {
						if ch := row.Get("changes"); ch != nil && len(ch.Vals) > 0 && ch.Vals[0].Get("rev") != nil && ch.Vals[0].Get("rev").Str != parent {
							res.RevID = ch.Vals[0].Get("rev").Str
						}
					}
				}
			}
			if res.RevID == "" {
				if time.Now().After(deadline) {
					panic(kit.InconclusiveErr{Msg: fmt.Sprintf("auto-import of %q did not show on the changes feed within %v", docID, vfC19WaitBound)})
				}
				time.Sleep(time.Millisecond)
			}
		}
		res.Code = 201
	}
	if res.Code == 200 {
		res.Code = 201
	}
	return
}

// checker bundles what every read needs.
type vfC19Checker struct {
	e      *vfC19Env
	rt     *rapid.T
	ops    *[]string
	docID  string
	reads  int
	paths  map[string]bool
	expSet bool
	revsOK bool // the request asked for the revision history (revs=true)

	skippedChanges bool
}

func (c *vfC19Checker) fail(format string, a ...any) {
	kit.Violation(c.rt, "C19", c.e.test, strings.Join(*c.ops, "; "), format, a...)
}

// raw checks a complete raw response: valid JSON, and no object in it holds a key twice with
// different values.
func (c *vfC19Checker) raw(what string, raw []byte) *vfC19Val {
	v, err := vfC19Decode(raw)
	if err != nil {
		c.fail("%s: response is not valid JSON (%v): %s", what, err, vfC19Clip(string(raw)))
	}
	var dups []string
	vfC19DupKeys("$", v, &dups)
	if len(dups) > 0 {
		c.fail("%s: duplicate key with different values in the raw response: %s\nraw: %s", what, dups[0], vfC19Clip(string(raw)))
	}
	return v
}

// doc checks one returned document object against the written revision.
func (c *vfC19Checker) doc(what string, got *vfC19Val, want *vfC19Rev, showExp bool) {
	if got == nil || got.Kind != 'o' {
		c.fail("%s: no document object in the response", what)
	}
	c.reads++
	c.paths[strings.SplitN(what, " ", 2)[0]] = true
	if id := got.Get("_id"); id == nil || id.Kind != 's' || id.Str != c.docID {
		c.fail("%s: _id is %s, want %q", what, vfC19Short(got), c.docID)
	}
	if rev := got.Get("_rev"); rev == nil || rev.Kind != 's' || rev.Str != want.RevID {
		c.fail("%s: _rev is %v, want %q", what, vfC19Short(got.Get("_rev")), want.RevID)
	}
	if x := got.Get("_exp"); x != nil {
		// _exp is only ever added on request (show_exp) and then as an RFC3339 string
		if !showExp || x.Kind != 's' {
			c.fail("%s: _exp=%s present in returned body (show_exp=%v, client wrote _exp=%v)", what, vfC19Short(x), showExp, want.HasExp)
		}
	} else if showExp && want.HasExp {
		c.fail("%s: show_exp=true but no _exp in the body although the client set one", what)
	}
	if got.Get("_revisions") != nil && !c.revsOK {
		c.fail("%s: _revisions in the returned body although no history was requested: %s", what, vfC19Short(got.Get("_revisions")))
	}
	if got.Get("_attachments") != nil {
		c.fail("%s: _attachments in the returned body of a document written without attachments: %s", what, vfC19Short(got.Get("_attachments")))
	}
	if want.Deleted {
		if d := got.Get("_deleted"); d == nil || d.Kind != 't' {
			c.fail("%s: tombstone revision returned without _deleted:true: %s", what, vfC19Short(got))
		}
	} else {
		for _, k := range []string{"_deleted", "_removed"} {
			if got.Get(k) != nil {
				c.fail("%s: live revision returned with %s", what, k)
			}
		}
	}
	stripped := got.Without(vfC19Added)
	if d := vfC19Equal(want.Body, stripped); d != "" {
		c.fail("%s: body written by %s differs from what was returned: %s\nwritten:  %s\nreturned: %s", what, want.Path, d, want.Text, vfC19Clip(vfC19Canon(got)))
	}
}

// readAll runs every REST read path for the document. revs maps revision id -> written revision;
// current is the expected winner; leaves are all live leaves; old are non-leaf revisions.
func (c *vfC19Checker) readAll(current *vfC19Rev, leaves []*vfC19Rev, old []*vfC19Rev) {
	e := c.e
	p := vfC19Path(c.docID)
	ok := func(what string, r vfC19Resp) bool {
		if r.Code != 200 {
			c.fail("%s: status %d: %s", what, r.Code, vfC19Clip(string(r.Body)))
		}
		return true
	}
	// GET current
	{
		what := "GET current"
		*c.ops = append(*c.ops, "GET "+p)
		r := e.do("GET", p, "", nil)
		ok(what, r)
		c.doc(what, c.raw(what, r.Body), current, false)
	}
	// GET revs=true (+show_exp)
	{
		what := "GET?revs=true&show_exp=true"
		*c.ops = append(*c.ops, "GET "+p+"?revs=true&show_exp=true")
		r := e.do("GET", p+"?revs=true&show_exp=true", "", nil)
		ok(what, r)
		v := c.raw(what, r.Body)
		c.revsOK = true
		c.doc(what, v, current, true)
		c.revsOK = false
		if rv := v.Get("_revisions"); rv == nil || rv.Kind != 'o' || rv.Get("ids") == nil {
			c.fail("%s: no _revisions in %s", what, vfC19Short(v))
		}
	}
	// GET rev= for every leaf and every old revision
	for _, lr := range leaves {
		what := "GET?rev=leaf " + lr.RevID
		*c.ops = append(*c.ops, "GET "+p+"?rev="+lr.RevID)
		r := e.do("GET", p+"?rev="+url.QueryEscape(lr.RevID), "", nil)
		ok(what, r)
		c.doc(what, c.raw(what, r.Body), lr, false)
	}
	for _, or := range old {
		what := "GET?rev=old " + or.RevID
		*c.ops = append(*c.ops, "GET "+p+"?rev="+or.RevID)
		r := e.do("GET", p+"?rev="+url.QueryEscape(or.RevID), "", nil)
		if r.Code == 404 {
			continue // an old body need not be retained
		}
		ok(what, r)
		c.doc(what, c.raw(what, r.Body), or, false)
	}
	byRev := map[string]*vfC19Rev{}
	for _, lr := range leaves {
		byRev[lr.RevID] = lr
	}
	// open_revs=all (JSON form)
	{
		what := "GET?open_revs=all"
		*c.ops = append(*c.ops, "GET "+p+"?open_revs=all")
		r := e.do("GET", p+"?open_revs=all", "", map[string]string{"Accept": "application/json"})
		ok(what, r)
		v := c.raw(what, r.Body)
		if v.Kind != 'a' || len(v.Vals) != len(leaves) {
			c.fail("%s: expected %d leaves, got %s", what, len(leaves), vfC19Short(v))
		}
		for _, item := range v.Vals {
			d := item.Get("ok")
			if d == nil || d.Kind != 'o' || d.Get("_rev") == nil || byRev[d.Get("_rev").Str] == nil {
				c.fail("%s: unexpected element %s", what, vfC19Short(item))
			}
			c.doc(what, d, byRev[d.Get("_rev").Str], false)
		}
	}
	// open_revs=[...] multipart form for one leaf
	{
		lr := leaves[len(leaves)-1]
		what := "GET?open_revs=[rev](multipart)"
		q := "?open_revs=" + url.QueryEscape(`["`+lr.RevID+`"]`)
		*c.ops = append(*c.ops, "GET "+p+q+" Accept: multipart/mixed")
		r := e.do("GET", p+q, "", map[string]string{"Accept": "multipart/mixed"})
		ok(what, r)
		parts, err := vfC19Multipart(r)
		if err != nil || len(parts) != 1 {
			c.fail("%s: cannot read multipart response (%v, %d parts): %s", what, err, len(parts), vfC19Clip(string(r.Body)))
		}
		c.doc(what, c.raw(what, parts[0]), lr, false)
	}
	// _bulk_get: current (no rev), every leaf, with revs=true
	{
		what := "_bulk_get"
		docs := &vfC19Val{Kind: 'a'}
		docs.Vals = append(docs.Vals, vfC19Obj().Set("id", vfC19Str(c.docID)))
		for _, lr := range leaves {
			docs.Vals = append(docs.Vals, vfC19Obj().Set("id", vfC19Str(c.docID)).Set("rev", vfC19Str(lr.RevID)))
		}
		body, _ := vfC19Ser(vfC19Obj().Set("docs", docs), nil)
		*c.ops = append(*c.ops, "POST /_bulk_get?revs=true "+body)
		r := e.do("POST", "/_bulk_get?revs=true", body, nil)
		ok(what, r)
		parts, err := vfC19Multipart(r)
		if err != nil || len(parts) != len(docs.Vals) {
			c.fail("%s: cannot read multipart response (%v, %d parts, want %d): %s", what, err, len(parts), len(docs.Vals), vfC19Clip(string(r.Body)))
		}
		for i, part := range parts {
			want := current
			if i > 0 {
				want = leaves[i-1]
			}
			c.revsOK = true
			c.doc(what, c.raw(what, part), want, false)
			c.revsOK = false
		}
	}
	// _all_docs?include_docs=true for this key
	{
		what := "_all_docs?include_docs=true"
		q := "/_all_docs?include_docs=true&keys=" + url.QueryEscape(vfC19MustSer(&vfC19Val{Kind: 'a', Vals: []*vfC19Val{vfC19Str(c.docID)}}))
		*c.ops = append(*c.ops, "GET "+q)
		r := e.do("GET", q, "", nil)
		ok(what, r)
		v := c.raw(what, r.Body)
		rows := v.Get("rows")
		if rows == nil || rows.Kind != 'a' || len(rows.Vals) != 1 || rows.Vals[0].Get("doc") == nil {
			c.fail("%s: expected one row with doc, got %s", what, vfC19Clip(string(r.Body)))
		}
		c.doc(what, rows.Vals[0].Get("doc"), current, false)
	}
	// the stored bytes of the current revision, read from the bucket directly
	if !current.Deleted {
		what := "raw-bucket-read"
		if raw, _, err := e.rt.GetSingleDataStore().GetRaw(e.ctx, c.docID); err == nil {
			*c.ops = append(*c.ops, "bucket GetRaw "+strconv.Quote(c.docID))
			v := c.raw(what, raw)
			if v.Kind != 'o' {
				c.fail("%s: stored document is not an object: %s", what, vfC19Clip(string(raw)))
			}
			if d := vfC19Equal(current.Body, v.Without(vfC19Added)); d != "" {
				c.fail("%s: body written by %s differs from the stored body: %s\nwritten: %s\nstored:  %s", what, current.Path, d, current.Text, vfC19Clip(string(raw)))
			}
			c.reads++
			c.paths[what] = true
		}
	}
	// _changes?include_docs=true since the position before this case
	c.changes(current)
}

func vfC19MustSer(v *vfC19Val) string {
	s, _ := vfC19Ser(v, nil)
	return s
}

// changes reads the changes feed from the position recorded before the case and checks the row
// of this document. The request is repeated until the row of the expected revision is there (the
// caching feed is asynchronous; request_plus would additionally wait ~1 s for unused sequences of
// the allocator's batch); a row that has not shown up when the bound expires makes the case
// inconclusive.
func (c *vfC19Checker) changes(current *vfC19Rev) {
	e := c.e
	if current.Feature.HugeFloat {
		// A document holding a literal outside the float64 range cannot be indexed by the test
		// store's view engine ("Unparseable JSRunner input"), so a changes request that is answered
		// from the channel query instead of the cache never lists it (same root as DESIGN §5a item 15;
		// not a body-fidelity question). The feed is not read for such a document.
		c.skippedChanges = true
		return
	}
	what := "_changes?include_docs=true"
	deadline := time.Now().Add(vfC19WaitBound)
	for {
		q := "/_changes?include_docs=true&since=" + url.QueryEscape(e.since)
		r := e.do("GET", q, "", nil)
		if r.Code != 200 {
			*c.ops = append(*c.ops, "GET "+q)
			c.fail("%s: status %d: %s", what, r.Code, vfC19Clip(string(r.Body)))
		}
		// decode leniently first: only a response that holds this document's current revision is judged
		v, err := vfC19Decode(r.Body)
		var row *vfC19Val
		if err == nil && v.Kind == 'o' && v.Get("results") != nil {
			for _, x := range v.Get("results").Vals {
				if id := x.Get("id"); id != nil && id.Str == c.docID {
					row = x
				}
			}
		}
		found := false
		if row != nil {
			if ch := row.Get("changes"); ch != nil && len(ch.Vals) > 0 && ch.Vals[0].Get("rev") != nil && ch.Vals[0].Get("rev").Str == current.RevID {
				found = true
			}
		}
		if err != nil && bytes.Contains(r.Body, []byte(strconv.Quote(current.RevID))) {
			*c.ops = append(*c.ops, "GET "+q)
			c.fail("%s: response is not valid JSON (%v): %s", what, err, vfC19Clip(string(r.Body)))
		}
		if found {
			*c.ops = append(*c.ops, "GET "+q)
			c.raw(what, r.Body)
			c.doc(what, row.Get("doc"), current, false)
			if ls := v.Get("last_seq"); ls != nil {
				e.since = ls.Str
			}
			return
		}
		if time.Now().After(deadline) {
			seen := "no row for the document"
			if row != nil {
				seen = "row " + vfC19Short(row.Without(map[string]bool{"doc": true}))
			}
			panic(kit.InconclusiveErr{Msg: fmt.Sprintf("changes row for %q rev %s did not appear within %v since=%s (%s; status %d, decode error %v)", c.docID, current.RevID, vfC19WaitBound, e.since, seen, r.Code, err)})
		}
		time.Sleep(time.Millisecond)
	}
}

func vfC19Multipart(r vfC19Resp) ([][]byte, error) {
	mt, params, err := mime.ParseMediaType(r.Hdr.Get("Content-Type"))
	if err != nil || !strings.HasPrefix(mt, "multipart/") {
		return nil, fmt.Errorf("content type %q: %v", r.Hdr.Get("Content-Type"), err)
	}
	mr := multipart.NewReader(bytes.NewReader(r.Body), params["boundary"])
	var out [][]byte
	for {
		p, err := mr.NextPart()
		if err == io.EOF {
			return out, nil
		}
		if err != nil {
			return out, err
		}
		b, err := io.ReadAll(p)
		if err != nil {
			return out, err
		}
		out = append(out, b)
	}
}

// valid expiry values only (base.ReflectExpiry: integer literal <= MaxUint32, numeric string that fits
// int32, RFC3339 string); all far in the future
var vfC19ExpValues = []*vfC19Val{vfC19Num("4102444800"), vfC19Str("2000000000"), vfC19Str("2100-01-01T00:00:00Z"), vfC19Num("4294967295")}

// vfC19Inconclusive converts a harness wait that expired into a skipped case.
func vfC19Inconclusive(rt *rapid.T, rec *kit.Rec) {
	if p := recover(); p != nil {
		if ie, ok := p.(kit.InconclusiveErr); ok {
			rec.Inconclusive()
			kit.InconclusiveLine("C19", "%s", ie.Msg)
			rt.Skip(ie.Msg)
		}
		panic(p)
	}
}

// TestVerif_C19_RestPaths: generated bodies × REST/import write paths × every REST read path,
// over single-revision, updated and conflicting histories.
func TestVerif_C19_RestPaths(t *testing.T) {
	rec := kit.New("C19", "RestPaths")
	defer rec.Flush()
	e0 := vfC19NewEnv(t, "RestPaths", false, nil)
	defer e0.Close()
	// conflicting live leaves cannot be written through a 4.x configuration (allow_conflicts is
	// refused); databases carried over from earlier versions hold them. The second gateway is switched
	// to the legacy mode the way the repository's own tests do it, to produce such documents.
	ec := vfC19NewEnv(t, "RestPaths", false, nil)
	defer ec.Close()
	ec.rt.GetDatabase().EnableAllowConflicts(ec.rt.TB())
	// third gateway: import feed on
	ea := vfC19NewEnv(t, "RestPaths", true, nil)
	defer ea.Close()
	knownBlank := kit.Known("C19", vfC19SigBlankObject)
	rapid.Check(t, func(rt *rapid.T) {
		defer vfC19Inconclusive(rt, rec)
		var ops []string
		classes0 := ""
		shape := rapid.SampledFrom([]string{"single", "single", "single", "update", "update", "conflict", "resurrect", "autoimport", "promote", "promote"}).Draw(rt, "shape")
		e := e0
		if shape == "conflict" || shape == "promote" {
			e = ec
			ops = append(ops, "(gateway in legacy allow_conflicts mode)")
		}
		autoImport := shape == "autoimport"
		if autoImport {
			e = ea
			ops = append(ops, "(gateway with auto-import)")
			shape = rapid.SampledFrom([]string{"single", "update"}).Draw(rt, "aishape")
			classes0 = "auto-import"
		}
		docID := e.newDocID(rt)
		c := &vfC19Checker{e: e, rt: rt, ops: &ops, docID: docID, paths: map[string]bool{}}
		var classes []string
		if classes0 != "" {
			classes = append(classes, classes0)
		}
		sigParts := []string{shape}
		nontrivial := false
		mk := func(path string, last bool) (*vfC19Val, *vfC19Style) {
			body := vfC19GenBody(rt, vfC19GenCfg{MaxDepth: 6, NoHugeFloat: !last})
			st := vfC19GenStyle(rt)
			if vfC19BlankObjectShape(path, body, st) && knownBlank {
				// listed finding: a raw-stored body that is an empty object with inner whitespace
				rec.Excluded(vfC19SigBlankObject)
				st = &vfC19Style{Compact: true}
			}
			return body, st
		}
		record := func(res vfC19WriteResult, body *vfC19Val, text, path string, esc, hasExp bool) *vfC19Rev {
			if res.Code != 201 || res.RevID == "" {
				c.fail("write by %s of a valid body was not accepted: status %d %s", path, res.Code, vfC19Clip(res.Reason))
			}
			r := &vfC19Rev{RevID: res.RevID, Body: body, Text: text, Path: path, Escaped: esc, HasExp: hasExp}
			sigParts = append(sigParts, fmt.Sprintf("%s esc=%v %s", path, esc, vfC19Canon(body)))
			vfC19Scan(body, 0, true, &r.Feature)
			classes = append(classes, "write="+path)
			classes = append(classes, r.Feature.Classes()...)
			if esc {
				classes = append(classes, "body:escaped-key")
			}
			if r.Feature.NonFloat || esc {
				nontrivial = true
			}
			return r
		}
		drawExp := func(path string) *vfC19Val {
			if path == "import" || path == "autoimport" || rapid.IntRange(0, 5).Draw(rt, "exp") != 0 {
				return nil
			}
			classes = append(classes, "with-_exp")
			return rapid.SampledFrom(vfC19ExpValues).Draw(rt, "expval")
		}
		kit.Guard(rt, "C19", "RestPaths", func() string { return strings.Join(ops, "; ") }, func() {
			w1 := rapid.SampledFrom(vfC19WritePaths).Draw(rt, "w1")
			if autoImport {
				w1 = "autoimport"
			}
			b1, st1 := mk(w1, shape == "single")
			if shape == "promote" && b1.Get("c19big") == nil {
				b1.Set("c19big", vfC19Num(rapid.SampledFrom(vfC19PromoteNums).Draw(rt, "big1")))
			}
			exp1 := drawExp(w1)
			res, text, esc := e.write(w1, docID, b1, st1, "", "1-"+rapid.SampledFrom([]string{"abc", "0a0a", "fed"}).Draw(rt, "d1"), exp1, &ops)
			rev1 := record(res, b1, text, w1, esc, exp1 != nil)
			current, leaves, old := rev1, []*vfC19Rev{rev1}, []*vfC19Rev(nil)
			switch shape {
			case "update":
				w2 := rapid.SampledFrom([]string{"PUT", "bulk", "bulk-noedits", "PUT-noedits", "import"}).Draw(rt, "w2")
				if autoImport && w2 != "PUT" {
					w2 = "autoimport"
				}
				b2, st2 := mk(w2, true)
				exp2 := drawExp(w2)
				res, text, esc := e.write(w2, docID, b2, st2, rev1.RevID, "2-"+rapid.SampledFrom([]string{"abc", "0a0a", "fed"}).Draw(rt, "d2"), exp2, &ops)
				rev2 := record(res, b2, text, w2, esc, exp2 != nil)
				if exp2 == nil && exp1 != nil && w2 != "import" {
					// an update without _exp clears the expiry
					rev2.HasExp = false
				}
				if (w2 == "import" || w2 == "autoimport") && exp1 != nil {
					rev2.HasExp = true // import preserves the existing expiry
				}
				current, leaves, old = rev2, []*vfC19Rev{rev2}, []*vfC19Rev{rev1}
			case "conflict":
				w2 := rapid.SampledFrom([]string{"bulk-noedits", "PUT-noedits"}).Draw(rt, "w2")
				b2, st2 := mk(w2, true)
				// a sibling of rev1 (generation 1) or a longer branch from a phantom parent (generation 2)
				gen := rapid.IntRange(1, 2).Draw(rt, "cgen")
				forced := fmt.Sprintf("%d-%s", gen, rapid.SampledFrom([]string{"000", "fff", "5"}).Draw(rt, "cd"))
				parent := ""
				if gen == 2 {
					parent = "1-dead"
				}
				if forced == rev1.RevID {
					forced += "x"
				}
				res, text, esc := e.write(w2, docID, b2, st2, parent, forced, nil, &ops)
				rev2 := record(res, b2, text, w2, esc, false)
				leaves = []*vfC19Rev{rev1, rev2}
				// the winner is the leaf with the higher generation, then the higher digest
				g1, g2 := vfC19RevGen(rev1.RevID), vfC19RevGen(rev2.RevID)
				if g2 > g1 || (g2 == g1 && rev2.RevID > rev1.RevID) {
					current = rev2
				}
				if exp1 != nil {
					rev2.HasExp = false
					rev1.HasExp = false
				}
			case "promote":
				// A conflicted document whose NON-winning leaf holds the generated body; the winning
				// branch is then tombstoned, so the other leaf's body is promoted from the revision tree
				// to the document body. The revision cache is dropped before reading, so every read
				// sees what was stored.
				var loser, winTip *vfC19Rev
				variant := rapid.SampledFrom([]string{"loser-first/sibling", "loser-first/longer", "winner-first/sibling", "winner-first/longer"}).Draw(rt, "pvariant")
				classes = append(classes, "promote="+variant)
				wn := rapid.SampledFrom([]string{"bulk-noedits", "PUT-noedits"}).Draw(rt, "w2")
				big := vfC19Num(rapid.SampledFrom(vfC19PromoteNums).Draw(rt, "big"))
				if strings.HasPrefix(variant, "loser-first") {
					// rev1 (written above) is the loser: give the document a second, winning branch
					loser = rev1
					b2, st2 := mk(wn, false)
					forced, parent := "1-ffffffffffffffffffffffffffffffffffff", ""
					if strings.HasSuffix(variant, "longer") {
						forced, parent = "2-fff", "1-dead"
					}
					res, text, esc := e.write(wn, docID, b2, st2, parent, forced, nil, &ops)
					winTip = record(res, b2, text, wn, esc, false)
				} else {
					// rev1 is the winner (optionally extended to generation 2); the loser arrives second
					winTip = rev1
					if strings.HasSuffix(variant, "longer") {
						bx, stx := mk("PUT", false)
						res, text, esc := e.write("PUT", docID, bx, stx, rev1.RevID, "", nil, &ops)
						winTip = record(res, bx, text, "PUT", esc, false)
					}
					b2, st2 := mk(wn, false)
					if b2.Get("c19big") == nil {
						b2.Set("c19big", big)
					}
					res, text, esc := e.write(wn, docID, b2, st2, "", "1-0", nil, &ops)
					loser = record(res, b2, text, wn, esc, false)
				}
				cur, _, code := e.current(docID)
				if code != 200 || cur != winTip.RevID {
					c.fail("expected %s to be the winning revision before the tombstone, GET says %s (status %d)", winTip.RevID, cur, code)
				}
				p := vfC19Path(docID) + "?rev=" + url.QueryEscape(winTip.RevID)
				ops = append(ops, "DELETE "+p)
				dr := e.do("DELETE", p, "", nil)
				dv, err := vfC19Decode(dr.Body)
				if dr.Code != 200 || err != nil || dv.Get("rev") == nil {
					c.fail("DELETE of the winning revision answered %d %s", dr.Code, vfC19Clip(string(dr.Body)))
				}
				tomb := &vfC19Rev{RevID: dv.Get("rev").Str, Body: vfC19Obj(), Text: "(DELETE)", Path: "DELETE", Deleted: true}
				ops = append(ops, "flush revision cache")
				e.rt.GetDatabase().FlushRevisionCacheForTest()
				current, leaves, old = loser, []*vfC19Rev{loser, tomb}, nil
				for _, r := range []*vfC19Rev{rev1, loser, winTip} {
					r.HasExp = false
				}
				c.expSet = true
			case "resurrect":
				// tombstone, then a disconnected live branch (allowed in conflict-free mode): two leaves
				p := vfC19Path(docID) + "?rev=" + url.QueryEscape(rev1.RevID)
				ops = append(ops, "DELETE "+p)
				dr := e.do("DELETE", p, "", nil)
				dv, err := vfC19Decode(dr.Body)
				if dr.Code != 200 || err != nil || dv.Get("rev") == nil {
					c.fail("DELETE of the current revision answered %d %s", dr.Code, vfC19Clip(string(dr.Body)))
				}
				tomb := &vfC19Rev{RevID: dv.Get("rev").Str, Body: vfC19Obj(), Text: "(DELETE)", Path: "DELETE", Deleted: true}
				w2 := rapid.SampledFrom([]string{"bulk-noedits", "PUT-noedits"}).Draw(rt, "w2")
				b2, st2 := mk(w2, true)
				forced := fmt.Sprintf("%d-%s", rapid.SampledFrom([]int{1, 3}).Draw(rt, "rgen"), rapid.SampledFrom([]string{"000", "fff", "5"}).Draw(rt, "rd"))
				if forced == rev1.RevID {
					forced += "x"
				}
				res, text, esc := e.write(w2, docID, b2, st2, "", forced, nil, &ops)
				rev3 := record(res, b2, text, w2, esc, false)
				current, leaves, old = rev3, []*vfC19Rev{tomb, rev3}, []*vfC19Rev{rev1}
				rev1.HasExp = false
			}
			classes = append(classes, "shape="+shape)
			if (shape == "update" || shape == "conflict") && exp1 != nil {
				// expiry bookkeeping across several writes is not part of this property
				for _, r := range leaves {
					r.HasExp = false
				}
				c.expSet = true
			}
			c.readAll(current, leaves, old)
			if c.skippedChanges {
				classes = append(classes, "changes-read-skipped(out-of-float-range literal)")
			}
		})
		if len(c.paths) < 2 {
			nontrivial = false
		}
		rec.Case(strings.Join(sigParts, " | "), nontrivial, classes...)
	})
	if knownBlank {
		vfC19RegressBlankObject(e0)
	}
	vfC19NoteHugeFloat(e0)
}

// vfC19NoteHugeFloat records the adjacent observation of DESIGN §5a item 15 (outside the listed
// statements): a literal outside the float64 range is stored and returned faithfully, but a later
// update of that document is answered with a server error.
func vfC19NoteHugeFloat(e *vfC19Env) {
	r := e.do("PUT", "/c19-note-huge", `{"a":1e400}`, nil)
	v, err := vfC19Decode(r.Body)
	if r.Code != 201 || err != nil || v.Get("rev") == nil {
		return
	}
	g := e.do("GET", "/c19-note-huge", "", nil)
	u := e.do("PUT", "/c19-note-huge?rev="+v.Get("rev").Str, `{"a":1}`, nil)
	kit.Note("C19", "adjacent observation (not part of the property): PUT {\"a\":1e400} -> %d, GET -> %s, then PUT ?rev=… {\"a\":1} -> %d %s",
		r.Code, strings.Join(strings.Fields(string(g.Body)), " "), u.Code, strings.Join(strings.Fields(vfC19Clip(string(u.Body))), " "))
}

// vfC19RegressBlankObject executes the minimal reproduction of the listed finding
// "inject-into-whitespace-only-object-invalid-json" end to end; while it still reproduces it prints
// KNOWN-FINDING (never a violation).
func vfC19RegressBlankObject(e *vfC19Env) {
	docID := "c19-regress-blank"
	if err := e.rt.GetSingleDataStore().SetRaw(e.ctx, docID, 0, nil, []byte("{ }")); err != nil {
		return
	}
	if r := e.do("GET", vfC19Path(docID), "", nil); r.Code != 200 {
		return
	}
	r := e.do("GET", "/_all_docs?include_docs=true&keys="+url.QueryEscape(`["`+docID+`"]`), "", nil)
	v, err := vfC19Decode(r.Body)
	bad := err != nil || r.Code != 200
	if !bad {
		rows := v.Get("rows")
		bad = rows == nil || len(rows.Vals) != 1 || rows.Vals[0].Get("doc") == nil
	}
	if bad {
		kit.KnownFinding("C19", vfC19SigBlankObject, fmt.Sprintf("external write of `{ }` + import, then GET /_all_docs?include_docs=true&keys=[id] answers %d %s", r.Code, strings.Join(strings.Fields(vfC19Clip(string(r.Body))), " ")))
	}
}

// numbers a float64 does not hold exactly, one of which every promoted body carries
var vfC19PromoteNums = []string{"9007199254740993", "-9007199254740993", "18446744073709551615", "18446744073709551617", "123456789012345678901234567890", "9223372036854775807", "0.30000000000000004123", "123456789012345678901234567890.123456789"}

func vfC19Min(a, b int) int {
	if a < b {
		return a
	}
	return b
}
