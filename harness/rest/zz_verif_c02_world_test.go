package rest

// C02 — no document content is disclosed outside the reader's channels.
//
// This file: the generated *world* (principals, documents with generated revision histories that move
// between channels, branch, get tombstoned and resurrected, with attachments) and the reference model
// the oracle uses. The model is written from the property statement: a revision belongs to the channels
// its own body names; a user may see a revision's body (and the attachments that revision carries) iff
// that channel set meets the user's effective channels (own, through a role, the public channel) or the
// user holds the all-channels wildcard. Every body, every attachment and every document id carries a
// unique marker; the oracle (probe file) searches raw response bytes for markers.
//
// Injected into package rest by the /verif driver; never part of /repo.

import (
	"encoding/base64"
	"encoding/json"
	"fmt"
	"net/http"
	"net/http/httptest"
	"net/url"
	"sort"
	"strings"
	"testing"

	"github.com/couchbase/sync_gateway/db"
	kit "github.com/couchbase/sync_gateway/verifkit"
	"pgregory.net/rapid"
)

const vfC02SyncFn = `function(doc, oldDoc, meta) { channel(doc.chan); }`

// vfC02SigAtt is the signature of DESIGN §5a item 13 as a disclosure path (owned by C14).
const vfC02SigAtt = "non-winning-revision-attachments-land-on-winner"

// vfC02SigStamp: a revision written on top of a non-winning leaf makes the gateway back up that
// leaf's body stamped with the channels of the document's *current* (winning) revision
// (db/crud.go: oldChannels := doc.getCurrentChannels() … backupAncestorRevs(…, oldChannels)); once
// the revision cache no longer holds the leaf, GET ?rev=<leaf> is authorised against the winner's
// channels and serves the body to users who never had one of the leaf's own channels.
const vfC02SigStamp = "superseded-non-winning-revision-authorised-by-winner-channels"

type vfC02User struct {
	Name  string
	Chans []string // admin channels
	Roles []string
	Eff   map[string]bool // effective channels incl. role-inherited and public
	Star  bool
}

// vfC02Users: the fixed principal set of DESIGN §4 C02 (guest stays disabled).
var vfC02Users = []*vfC02User{
	{Name: "uNone", Eff: map[string]bool{"!": true}},
	{Name: "uA", Chans: []string{"A"}, Eff: map[string]bool{"A": true, "!": true}},
	{Name: "uB", Chans: []string{"B"}, Eff: map[string]bool{"B": true, "!": true}},
	{Name: "uRoleA", Roles: []string{"rA"}, Eff: map[string]bool{"A": true, "!": true}},
	{Name: "uStar", Chans: []string{"*"}, Eff: map[string]bool{"!": true}, Star: true},
}

type vfC02Att struct {
	Name   string
	Marker string
	Data   string
	B64    string
	Digest string
	Revpos int
	Doc    *vfC02Doc
	Revs   []*vfC02Rev // accepted revisions that carry this attachment (created or kept as stub)
}

type vfC02Rev struct {
	Doc     *vfC02Doc
	ID      string
	Parent  string
	Gen     int
	Deleted bool
	Chans   []string
	Marker  string // "" for body-less tombstones
	Atts    map[string]*vfC02Att
	HasKids bool
	Stamped [][]string // channel sets of the then-current revision at the time a child was written below this non-winning leaf
}

type vfC02Doc struct {
	world    *vfC02World
	Idx      int
	ID       string
	IDMarker string
	Revs     []*vfC02Rev
	ByID     map[string]*vfC02Rev
	CVs      []string
	Winner   *vfC02Rev
	Atts     []*vfC02Att
	Rejected []string // markers of writes the server refused: nobody may ever see them
}

type vfC02World struct {
	t           *testing.T
	rt          *RestTester
	ks          string
	dbName      string
	defaultColl bool
	conflicts   bool // documents may carry conflicting live branches (data written under allow_conflicts, e.g. before an upgrade)
	docs        []*vfC02Doc
	nMarker     int
	nDigest     int
	ops         []string
	known13     bool
	excluded13  int
	knownStamp  bool
	stamped     int
	classes     map[string]bool
	// marker index
	revByMarker map[string]*vfC02Rev
	attByMarker map[string]*vfC02Att
	docByMarker map[string]*vfC02Doc
}

type vfC02Infra struct{ Msg string }

func (e vfC02Infra) Error() string { return e.Msg }

func (w *vfC02World) marker(kind byte) string {
	w.nMarker++
	return fmt.Sprintf("vfm%c%06dq", kind, w.nMarker)
}

func (w *vfC02World) render() string { return strings.Join(w.ops, "; ") }

func (w *vfC02World) logf(format string, args ...any) {
	w.ops = append(w.ops, fmt.Sprintf(format, args...))
}

// ---------------------------------------------------------------------------------------------
// model

func (u *vfC02User) mayChans(chans []string) bool {
	if u.Star {
		return true
	}
	for _, c := range chans {
		if u.Eff[c] {
			return true
		}
	}
	return false
}

// inChans: the revision is *in one of the user's channels* (the premise of the converse clause). A
// wildcard user is in every channel, but a revision in no channel at all is in none of them.
func (u *vfC02User) inChans(chans []string) bool {
	if u.Star {
		return len(chans) > 0
	}
	return u.mayChans(chans)
}

func (u *vfC02User) mayRev(r *vfC02Rev) bool {
	if u.mayChans(r.Chans) {
		return true
	}
	if r.Doc != nil && r.Doc.world != nil && r.Doc.world.knownStamp {
		// listed finding: the backup of a superseded non-winning leaf answers to the winner's channels
		for _, cs := range r.Stamped {
			if u.mayChans(cs) {
				return true
			}
		}
	}
	return false
}

func (u *vfC02User) mayAtt(a *vfC02Att) bool {
	for _, r := range a.Revs {
		if u.mayRev(r) {
			return true
		}
	}
	return false
}

// mayKnowDoc: the document was at some point (on any branch) in one of the user's channels.
func (u *vfC02User) mayKnowDoc(d *vfC02Doc) bool {
	if u.Star {
		return true
	}
	for _, r := range d.Revs {
		if u.mayRev(r) {
			return true
		}
	}
	return false
}

func vfC02Better(a, b *vfC02Rev) bool {
	if a.Deleted != b.Deleted {
		return !a.Deleted
	}
	if a.Gen != b.Gen {
		return a.Gen > b.Gen
	}
	return vfC02Digest(a.ID) > vfC02Digest(b.ID)
}

func vfC02Digest(rev string) string {
	if i := strings.Index(rev, "-"); i >= 0 {
		return rev[i+1:]
	}
	return rev
}

func (d *vfC02Doc) leaves() []*vfC02Rev {
	var out []*vfC02Rev
	for _, r := range d.Revs {
		if !r.HasKids {
			out = append(out, r)
		}
	}
	return out
}

func (d *vfC02Doc) liveLeaves() []*vfC02Rev {
	var out []*vfC02Rev
	for _, r := range d.leaves() {
		if !r.Deleted {
			out = append(out, r)
		}
	}
	return out
}

func (d *vfC02Doc) modelWinner() *vfC02Rev {
	var best *vfC02Rev
	for _, r := range d.leaves() {
		if best == nil || vfC02Better(r, best) {
			best = r
		}
	}
	return best
}

func (d *vfC02Doc) ancestry(r *vfC02Rev) []string {
	var out []string
	for cur := r; cur != nil; cur = d.ByID[cur.Parent] {
		out = append(out, vfC02Digest(cur.ID))
	}
	return out
}

func (d *vfC02Doc) revIDs() []string {
	out := make([]string, 0, len(d.Revs))
	for _, r := range d.Revs {
		out = append(out, r.ID)
	}
	return out
}

// ---------------------------------------------------------------------------------------------
// world construction

type vfC02Resp struct {
	Code int
	Body []byte
	Hdr  http.Header
}

func (w *vfC02World) send(user, method, path, body string, hdr map[string]string) vfC02Resp {
	rq := Request(method, path, body)
	for k, v := range hdr {
		rq.Header.Set(k, v)
	}
	rec := httptest.NewRecorder()
	if user == "" {
		w.rt.TestAdminHandler().ServeHTTP(rec, rq)
	} else {
		rq.SetBasicAuth(user, RestTesterDefaultUserPassword)
		w.rt.TestPublicHandler().ServeHTTP(rec, rq)
	}
	return vfC02Resp{Code: rec.Code, Body: rec.Body.Bytes(), Hdr: rec.Header()}
}

func (w *vfC02World) docPath(d *vfC02Doc) string { return "/" + w.ks + "/" + url.PathEscape(d.ID) }

func vfC02NewWorld(t *testing.T, rt *rapid.T) (w *vfC02World, err error) {
	defer func() {
		if r := recover(); r != nil {
			err = vfC02Infra{fmt.Sprintf("world setup panic: %v", r)}
		}
	}()
	w = &vfC02World{t: t, classes: map[string]bool{}, revByMarker: map[string]*vfC02Rev{}, attByMarker: map[string]*vfC02Att{}, docByMarker: map[string]*vfC02Doc{}}
	w.defaultColl = rapid.Bool().Draw(rt, "defaultCollection")
	w.conflicts = rapid.IntRange(0, 3).Draw(rt, "conflicts") != 0
	cfg := &RestTesterConfig{SyncFn: vfC02SyncFn, GuestEnabled: false}
	if w.defaultColl {
		w.rt = NewRestTesterDefaultCollection(t, cfg)
	} else {
		w.rt = NewRestTester(t, cfg)
	}
	if w.conflicts {
		// allow_conflicts can no longer be configured (a database config that sets it is refused), but
		// documents with conflicting live branches written by earlier versions are still served by the
		// same read paths; the write phase of such a world runs with the switch the repository's own
		// tests use, and it is switched back before the probe phase.
		w.rt.GetDatabase().EnableAllowConflicts(t)
	}
	w.dbName = w.rt.GetDatabase().Name
	w.ks = w.rt.GetSingleKeyspace()
	w.known13 = kit.Known("C02", vfC02SigAtt)
	w.knownStamp = kit.Known("C02", vfC02SigStamp)
	w.logf("collection=%s conflicts=%v", map[bool]string{true: "default", false: "named"}[w.defaultColl], w.conflicts)
	ds := w.rt.GetSingleDataStore()
	r := w.send("", "PUT", "/"+w.dbName+"/_role/rA", GetRolePayload(t, "", ds, []string{"A"}), nil)
	if r.Code != 201 {
		return w, vfC02Infra{fmt.Sprintf("create role: %d %s", r.Code, r.Body)}
	}
	for _, u := range vfC02Users {
		r := w.send("", "PUT", "/"+w.dbName+"/_user/"+u.Name, GetUserPayload(t, "", RestTesterDefaultUserPassword, "", ds, u.Chans, u.Roles), nil)
		if r.Code != 201 {
			return w, vfC02Infra{fmt.Sprintf("create user %s: %d %s", u.Name, r.Code, r.Body)}
		}
	}
	for i := 0; i < 4; i++ {
		m := w.marker('i')
		d := &vfC02Doc{world: w, Idx: i, ID: fmt.Sprintf("doc%d-%s", i, m), IDMarker: m, ByID: map[string]*vfC02Rev{}}
		w.docs = append(w.docs, d)
		w.docByMarker[m] = d
	}
	return w, nil
}

func (w *vfC02World) Close() {
	defer func() { _ = recover() }()
	if w.rt != nil {
		w.rt.Close()
	}
}

var vfC02ChanChoices = [][]string{{"A"}, {"A"}, {"B"}, {"B"}, {"A", "B"}, {}, {"!"}, {"B", "!"}, {"A"}, {"B"}}

type vfC02Write struct {
	doc       *vfC02Doc
	parent    *vfC02Rev // nil = create
	transport string    // put | delete | noedits
	deleted   bool
	chans     []string
	marker    string
	atts      map[string]*vfC02Att // attachments the new revision carries
	newAtts   map[string]bool      // names whose data is sent inline
	revID     string               // chosen id (noedits)
}

// genContent draws channels, body marker and attachments for a new revision.
func (w *vfC02World) genContent(rt *rapid.T, wr *vfC02Write, willWin, certain bool) {
	d := wr.doc
	wr.chans = rapid.SampledFrom(vfC02ChanChoices).Draw(rt, "chans")
	wr.marker = w.marker('b')
	wr.atts = map[string]*vfC02Att{}
	wr.newAtts = map[string]bool{}
	gen := 1
	if wr.parent != nil {
		gen = wr.parent.Gen + 1
	}
	wanted := false
	for _, name := range []string{"a0", "a1"} {
		mode := rapid.SampledFrom([]string{"none", "none", "none", "new", "new", "keep", "keep"}).Draw(rt, "att-"+name)
		switch mode {
		case "new":
			wanted = true
			if w.known13 && !(willWin && certain) {
				continue
			}
			m := w.marker('a')
			data := "ATT[" + m + "]"
			a := &vfC02Att{Name: name, Marker: m, Data: data, B64: base64.StdEncoding.EncodeToString([]byte(data)), Digest: db.Sha1DigestKey([]byte(data)), Revpos: gen, Doc: d}
			wr.atts[name] = a
			wr.newAtts[name] = true
		case "keep":
			// a stub is only meaningful against the attachments of the current winner (the document's attachment set)
			if wr.parent == nil || wr.parent != d.Winner || wr.parent.Atts[name] == nil {
				continue
			}
			wanted = true
			if w.known13 && !(willWin && certain) {
				continue
			}
			wr.atts[name] = wr.parent.Atts[name]
		}
	}
	if wanted && w.known13 && !(willWin && certain) {
		w.excluded13++
	}
}

func (w *vfC02World) bodyJSON(wr *vfC02Write, withRevisions bool) string {
	m := map[string]any{}
	if wr.marker != "" {
		m["chan"] = wr.chans
		m["m"] = wr.marker
	}
	if wr.deleted {
		m["_deleted"] = true
	}
	if len(wr.atts) > 0 {
		am := map[string]any{}
		for name, a := range wr.atts {
			if wr.newAtts[name] {
				am[name] = map[string]any{"content_type": "text/plain", "data": a.B64}
			} else {
				am[name] = map[string]any{"stub": true, "revpos": a.Revpos, "digest": a.Digest, "content_type": "text/plain", "length": len(a.Data)}
			}
		}
		m["_attachments"] = am
	}
	if withRevisions {
		m["_id"] = wr.doc.ID
		m["_rev"] = wr.revID
		ids := []string{vfC02Digest(wr.revID)}
		if wr.parent != nil {
			ids = append(ids, wr.doc.ancestry(wr.parent)...)
		}
		gen := 1
		if wr.parent != nil {
			gen = wr.parent.Gen + 1
		}
		m["_revisions"] = map[string]any{"start": gen, "ids": ids}
	}
	b, _ := json.Marshal(m)
	return string(b)
}

// apply executes the write against the gateway and, when accepted, adds the revision to the model.
func (w *vfC02World) apply(wr *vfC02Write) error {
	d := wr.doc
	parentID := ""
	gen := 1
	if wr.parent != nil {
		parentID = wr.parent.ID
		gen = wr.parent.Gen + 1
	}
	var resp vfC02Resp
	revID, cv := "", ""
	desc := ""
	switch wr.transport {
	case "put":
		path := w.docPath(d)
		if parentID != "" {
			path += "?rev=" + url.QueryEscape(parentID)
		}
		body := w.bodyJSON(wr, false)
		resp = w.send("", "PUT", path, body, nil)
		desc = fmt.Sprintf("PUT %s parent=%s %s", d.ID, parentID, body)
	case "delete":
		resp = w.send("", "DELETE", w.docPath(d)+"?rev="+url.QueryEscape(parentID), "", nil)
		desc = fmt.Sprintf("DELETE %s rev=%s", d.ID, parentID)
	case "noedits":
		body := `{"new_edits":false,"docs":[` + w.bodyJSON(wr, true) + `]}`
		resp = w.send("", "POST", "/"+w.ks+"/_bulk_docs", body, nil)
		desc = fmt.Sprintf("POST _bulk_docs new_edits=false %s", body)
	}
	accepted := false
	switch wr.transport {
	case "put", "delete":
		if resp.Code == 201 || resp.Code == 200 {
			var out struct {
				Rev string `json:"rev"`
				CV  string `json:"cv"`
			}
			if err := json.Unmarshal(resp.Body, &out); err != nil || out.Rev == "" {
				return vfC02Infra{fmt.Sprintf("unreadable write response %d %s", resp.Code, resp.Body)}
			}
			accepted, revID, cv = true, out.Rev, out.CV
		}
	case "noedits":
		if resp.Code == 201 {
			var out []map[string]any
			if err := json.Unmarshal(resp.Body, &out); err != nil || len(out) != 1 {
				return vfC02Infra{fmt.Sprintf("unreadable _bulk_docs response %d %s", resp.Code, resp.Body)}
			}
			if out[0]["error"] == nil {
				accepted = true
				revID = wr.revID
				if s, ok := out[0]["cv"].(string); ok {
					cv = s
				}
			}
		}
	}
	if !accepted {
		w.logf("%s => REJECTED %d %s", desc, resp.Code, vfC02Clip(string(resp.Body), 120))
		if wr.marker != "" {
			d.Rejected = append(d.Rejected, wr.marker)
		}
		for name, a := range wr.atts {
			if wr.newAtts[name] {
				d.Rejected = append(d.Rejected, a.Marker)
			}
		}
		w.classes["write-rejected"] = true
		return nil
	}
	if vfC02Gen(revID) != gen {
		return vfC02Infra{fmt.Sprintf("write returned revision %s, expected generation %d (%s)", revID, gen, desc)}
	}
	if d.ByID[revID] != nil {
		// an idempotent repeat of an existing revision: nothing new
		w.logf("%s => already known %s", desc, revID)
		return nil
	}
	r := &vfC02Rev{Doc: d, ID: revID, Parent: parentID, Gen: gen, Deleted: wr.deleted, Chans: wr.chans, Marker: wr.marker, Atts: wr.atts}
	if wr.marker == "" {
		r.Chans = nil
	}
	d.Revs = append(d.Revs, r)
	d.ByID[revID] = r
	if wr.parent != nil {
		if !wr.parent.HasKids && d.Winner != nil && wr.parent != d.Winner && wr.parent.Marker != "" {
			// the parent was a non-winning leaf: its body is backed up now (d.Winner is still the winner before this write)
			wr.parent.Stamped = append(wr.parent.Stamped, d.Winner.Chans)
			w.stamped++
			w.classes["child-of-non-winning-leaf"] = true
		}
		wr.parent.HasKids = true
	}
	if r.Marker != "" {
		w.revByMarker[r.Marker] = r
	}
	for name, a := range wr.atts {
		a.Revs = append(a.Revs, r)
		if wr.newAtts[name] {
			d.Atts = append(d.Atts, a)
			w.attByMarker[a.Marker] = a
		}
	}
	if cv != "" {
		d.addCV(cv)
	}
	w.logf("%s => %s", desc, revID)
	// observe the winner the gateway computed; the model's rule must agree (else the harness is wrong)
	coll, ctx := w.rt.GetSingleTestDatabaseCollection()
	doc, err := coll.GetDocument(ctx, d.ID, db.DocUnmarshalSync)
	if err != nil || doc == nil {
		return vfC02Infra{fmt.Sprintf("cannot load %s after write: %v", d.ID, err)}
	}
	if doc.HLV != nil {
		if s := doc.HLV.GetCurrentVersionString(); s != "" {
			d.addCV(s)
		}
	}
	mw := d.modelWinner()
	if mw == nil || mw.ID != doc.GetRevTreeID() {
		return vfC02Infra{fmt.Sprintf("model winner %v differs from the gateway's current revision %s of %s", mw, doc.GetRevTreeID(), d.ID)}
	}
	d.Winner = mw
	return nil
}

func (d *vfC02Doc) addCV(cv string) {
	for _, c := range d.CVs {
		if c == cv {
			return
		}
	}
	d.CVs = append(d.CVs, cv)
}

func vfC02Gen(rev string) int {
	n := 0
	for _, c := range rev {
		if c < '0' || c > '9' {
			break
		}
		n = n*10 + int(c-'0')
	}
	return n
}

func vfC02Clip(s string, n int) string {
	if len(s) > n {
		return s[:n] + "…"
	}
	return s
}

func (w *vfC02World) newRevID(rt *rapid.T, gen int) string {
	w.nDigest++
	return fmt.Sprintf("%d-%s%03d", gen, rapid.SampledFrom([]string{"1a", "5m", "9z", "c0", "zz"}).Draw(rt, "digest"), w.nDigest)
}

// step draws and executes one write on one document.
func (w *vfC02World) step(rt *rapid.T) error {
	d := w.docs[rapid.IntRange(0, len(w.docs)-1).Draw(rt, "doc")]
	wr := &vfC02Write{doc: d}
	if len(d.Revs) == 0 {
		wr.transport = rapid.SampledFrom([]string{"put", "put", "noedits"}).Draw(rt, "transport")
		if wr.transport == "noedits" {
			wr.revID = w.newRevID(rt, 1)
		}
		w.genContent(rt, wr, true, true)
		return w.apply(wr)
	}
	action := rapid.SampledFrom([]string{"update", "update", "update", "branch", "branch", "branch", "tombstone", "tombstone"}).Draw(rt, "action")
	live := d.liveLeaves()
	if action == "tombstone" && len(live) == 0 {
		action = "update" // becomes a resurrection
	}
	switch action {
	case "update", "branch":
		if action == "branch" && !w.conflicts {
			// conflict-free mode admits one kind of second branch: a disconnected root over a deleted document
			if !d.Winner.Deleted {
				action = "update"
			}
		}
		if action == "update" {
			wr.parent = d.Winner
			if d.Winner.Deleted {
				w.classes["resurrection"] = true
			}
		} else {
			var cands []*vfC02Rev
			if w.conflicts {
				for _, r := range d.Revs {
					if !r.Deleted {
						cands = append(cands, r)
					}
				}
			}
			// half of the time extend a losing live branch (when there is one)
			var losing []*vfC02Rev
			for _, l := range live {
				if l != d.Winner {
					losing = append(losing, l)
				}
			}
			if len(losing) > 0 && rapid.Bool().Draw(rt, "extendLosing") {
				wr.parent = losing[rapid.IntRange(0, len(losing)-1).Draw(rt, "losing")]
			} else if k := rapid.IntRange(0, len(cands)).Draw(rt, "parent"); k < len(cands) {
				// index len(cands) = a disconnected new root
				wr.parent = cands[k]
			} else {
				w.classes["second-root"] = true
			}
		}
		gen := 1
		if wr.parent != nil {
			gen = wr.parent.Gen + 1
		}
		// will the new (live) revision be the winner? certain when no other live leaf reaches its generation
		maxOther, tie := 0, false
		for _, l := range d.liveLeaves() {
			if l == wr.parent {
				continue
			}
			if l.Gen > maxOther {
				maxOther = l.Gen
			}
			if l.Gen == gen {
				tie = true
			}
		}
		wr.transport = "noedits"
		if wr.parent != nil && !wr.parent.HasKids && !tie && rapid.Bool().Draw(rt, "viaPut") {
			wr.transport = "put"
		}
		willWin, certain := gen > maxOther, !tie
		if wr.transport == "noedits" {
			wr.revID = w.newRevID(rt, gen)
			if tie {
				cand := &vfC02Rev{ID: wr.revID, Gen: gen}
				willWin, certain = true, true
				for _, l := range d.liveLeaves() {
					if l != wr.parent && vfC02Better(l, cand) {
						willWin = false
					}
				}
			}
		}
		w.genContent(rt, wr, willWin, certain)
		if wr.parent == nil || wr.parent.HasKids || wr.parent != d.Winner {
			w.classes["branch"] = true
		}
	case "tombstone":
		wr.parent = live[rapid.IntRange(0, len(live)-1).Draw(rt, "leaf")]
		wr.deleted = true
		wr.transport = rapid.SampledFrom([]string{"delete", "delete", "put", "noedits"}).Draw(rt, "tombstoneVia")
		if wr.transport != "delete" && rapid.Bool().Draw(rt, "tombstoneBody") {
			// a tombstone that carries a body (and therefore channels of its own)
			wr.chans = rapid.SampledFrom(vfC02ChanChoices).Draw(rt, "chans")
			wr.marker = w.marker('b')
			w.classes["tombstone-with-body"] = true
		}
		if wr.transport == "noedits" {
			wr.revID = w.newRevID(rt, wr.parent.Gen+1)
		}
		w.classes["tombstone"] = true
	}
	return w.apply(wr)
}

// finish waits for the caching feed (so that the changes probes see every write) and indexes what
// each user may see.
func (w *vfC02World) finish() error {
	dbc := w.rt.GetDatabase()
	dbc.Options.AllowConflicts = nil
	seq, err := dbc.LastSequence(w.rt.Context())
	if err != nil {
		return vfC02Infra{"last sequence: " + err.Error()}
	}
	if err := dbc.WaitForSequenceNotSkipped(w.rt.Context(), seq); err != nil {
		return kit.InconclusiveErr{Msg: fmt.Sprintf("caching feed did not reach sequence %d: %v", seq, err)}
	}
	return nil
}

// summary renders the model per document (for violation messages).
func (w *vfC02World) summary() string {
	var sb strings.Builder
	for _, d := range w.docs {
		fmt.Fprintf(&sb, "\n  %s:", d.ID)
		for _, r := range d.Revs {
			var atts []string
			for n, a := range r.Atts {
				atts = append(atts, n+"="+a.Marker)
			}
			sort.Strings(atts)
			flag := ""
			if r.Deleted {
				flag = " deleted"
			}
			if r == d.Winner {
				flag += " WINNER"
			}
			fmt.Fprintf(&sb, "\n    %s <- %q chans=%v body=%s atts=%v%s", r.ID, r.Parent, r.Chans, r.Marker, atts, flag)
		}
	}
	return sb.String()
}
