package rest

// C02 — replication-protocol read surface. The repository's BlipTesterClient connects as one of the
// world's users and pulls (one-shot subChanges); every message the gateway sends on that connection
// (`changes`, `rev`, `norev`, attachment bodies) is recorded, plus the answers to explicit
// `getAttachment` requests for digests of revisions that are not being sent to this client — issued
// both while a `rev` of the same document is in flight and after the pull has completed — and the
// `rev` messages obtained when the client claims (stale) known revisions / delta support.

import (
	"encoding/json"
	"fmt"
	"sort"
	"strings"
	"sync"
	"time"

	"github.com/couchbase/go-blip"
	"github.com/couchbase/sync_gateway/db"
	kit "github.com/couchbase/sync_gateway/verifkit"
	"pgregory.net/rapid"
)

const vfC02WaitBound = 45 * time.Second

type vfC02BlipPlan struct {
	Proto         string // v2 | v3 | v4
	Channels      string
	ActiveOnly    bool
	DocIDs        []string
	Replacement   bool
	Deltas        bool
	Known         map[string][]any // docID -> known-revs answer to `changes`
	DuringRev     bool             // ask for foreign attachments while a rev of the document is in flight
	CompressProps bool
}

func (p *vfC02BlipPlan) String() string {
	var known []string
	for id, k := range p.Known {
		if len(k) > 0 {
			known = append(known, fmt.Sprintf("%s:%v", id, k))
		}
	}
	sort.Strings(known)
	return fmt.Sprintf("proto=%s channels=%q activeOnly=%v docIDs=%v replacementRevs=%v deltas=%v known=%v duringRev=%v", p.Proto, p.Channels, p.ActiveOnly, p.DocIDs, p.Replacement, p.Deltas, known, p.DuringRev)
}

func (w *vfC02World) genBlipPlan(rt *rapid.T) *vfC02BlipPlan {
	p := &vfC02BlipPlan{Known: map[string][]any{}}
	p.Proto = rapid.SampledFrom([]string{"v3", "v3", "v4", "v4", "v2"}).Draw(rt, "proto")
	if rapid.IntRange(0, 2).Draw(rt, "bfilter") == 0 {
		p.Channels = rapid.SampledFrom([]string{"A", "B", "A,B", "!", "A,!"}).Draw(rt, "bchannels")
	}
	p.ActiveOnly = rapid.IntRange(0, 3).Draw(rt, "bactive") == 0
	if rapid.IntRange(0, 4).Draw(rt, "bdocids") == 0 {
		n := rapid.IntRange(1, 3).Draw(rt, "bn")
		seen := map[string]bool{}
		for i := 0; i < n; i++ {
			if id := w.drawDoc(rt).ID; !seen[id] {
				seen[id] = true
				p.DocIDs = append(p.DocIDs, id)
			}
		}
	}
	p.Replacement = rapid.IntRange(0, 3).Draw(rt, "breplacement") == 0
	p.DuringRev = rapid.Bool().Draw(rt, "bduring")
	if rapid.Bool().Draw(rt, "bstale") {
		p.Deltas = true
		for _, d := range w.docs {
			if len(d.Revs) == 0 || rapid.IntRange(0, 2).Draw(rt, "bknown") == 0 {
				continue
			}
			pool := d.revIDs()
			if p.Proto == "v4" && len(d.CVs) > 0 && rapid.Bool().Draw(rt, "bknowncv") {
				pool = d.CVs
			}
			p.Known[d.ID] = []any{pool[rapid.IntRange(0, len(pool)-1).Draw(rt, "bknownrev")]}
		}
	}
	return p
}

type vfC02BlipSession struct {
	w      *vfC02World
	u      *vfC02User
	plan   *vfC02BlipPlan
	client *BlipTesterClient
	btcc   *BlipTesterCollectionClient

	mu        sync.Mutex
	chunks    [][]byte            // everything the gateway sent on the pull connection
	attChunks map[string][][]byte // docID -> answers to explicit getAttachment requests naming that document
	expected  int
	received  int
	caughtUp  bool
	revs      int
	norevs    int
	attAsked  int
	attServed int
	trouble   string
	seenDoc   map[string]bool // documents whose first rev/norev went to the repository client's own handler
	repeats   int
}

// firstFor reports whether this is the first rev/norev message of the pull for the document. Only the
// first one is handed to the BlipTesterClient's handler: that handler asserts (and aborts the
// goroutine, failing the outer test) when the gateway sends a version the client already holds, which a
// changes feed legitimately does when a document is listed at two sequences (replacement revisions,
// branched documents). Later messages are recorded and answered by the harness itself.
func (s *vfC02BlipSession) firstFor(docID string) bool {
	s.mu.Lock()
	defer s.mu.Unlock()
	if s.seenDoc[docID] {
		s.repeats++
		return false
	}
	s.seenDoc[docID] = true
	return true
}

// ownRev handles a repeated rev message: fetch the attachments it lists (recorded), then acknowledge.
func (s *vfC02BlipSession) ownRev(msg *blip.Message) {
	body, _ := msg.Body()
	var doc struct {
		Atts map[string]struct {
			Digest string `json:"digest"`
		} `json:"_attachments"`
	}
	_ = json.Unmarshal(body, &doc)
	for _, a := range doc.Atts {
		if a.Digest == "" {
			continue
		}
		rq := blip.NewRequest()
		rq.SetProfile(db.MessageGetAttachment)
		rq.Properties[db.GetAttachmentDigest] = a.Digest
		if s.plan.Proto != "v2" {
			rq.Properties[db.GetAttachmentID] = msg.Properties[db.RevMessageID]
		}
		s.btcc.addCollectionProperty(rq)
		if !s.client.pullReplication.bt.sender.Send(rq) {
			break
		}
		b := vfC02MsgBytes(rq.Response())
		s.mu.Lock()
		s.chunks = append(s.chunks, b)
		s.mu.Unlock()
	}
	if !msg.NoReply() {
		msg.Response().SetBody([]byte(`[]`))
	}
}

func vfC02MsgBytes(msg *blip.Message) []byte {
	var sb strings.Builder
	keys := make([]string, 0, len(msg.Properties))
	for k := range msg.Properties {
		keys = append(keys, k)
	}
	sort.Strings(keys)
	for _, k := range keys {
		sb.WriteString(k + ": " + msg.Properties[k] + "\n")
	}
	body, _ := msg.Body()
	return append([]byte(sb.String()), body...)
}

// askAttachment sends an explicit getAttachment and records the answer under the named document.
func (s *vfC02BlipSession) askAttachment(a *vfC02Att) {
	rq := blip.NewRequest()
	rq.SetProfile(db.MessageGetAttachment)
	rq.Properties[db.GetAttachmentDigest] = a.Digest
	if s.plan.Proto != "v2" {
		rq.Properties[db.GetAttachmentID] = a.Doc.ID
	}
	s.btcc.addCollectionProperty(rq)
	if !s.client.pullReplication.bt.sender.Send(rq) {
		s.mu.Lock()
		s.trouble = "getAttachment could not be sent (connection closed)"
		s.mu.Unlock()
		return
	}
	resp := rq.Response()
	b := vfC02MsgBytes(resp)
	s.mu.Lock()
	s.attAsked++
	if resp.Type() != blip.ErrorType {
		s.attServed++
	}
	s.attChunks[a.Doc.ID] = append(s.attChunks[a.Doc.ID], b)
	s.mu.Unlock()
}

// openBlip connects the repository's BlipTesterClient as the user and installs the recording handlers.
func (w *vfC02World) openBlip(u *vfC02User, plan *vfC02BlipPlan) (s *vfC02BlipSession, err error) {
	defer func() {
		if r := recover(); r != nil {
			if ie, ok := r.(kit.InconclusiveErr); ok {
				err = ie
				return
			}
			err = vfC02Infra{fmt.Sprintf("BLIP client panic: %v", r)}
		}
	}()
	s = &vfC02BlipSession{w: w, u: u, plan: plan, attChunks: map[string][][]byte{}, seenDoc: map[string]bool{}}
	runner := NewBlipTesterClientRunner(w.t)
	proto := map[string]db.CBMobileSubprotocolVersion{"v2": db.CBMobileReplicationV2, "v3": db.CBMobileReplicationV3, "v4": db.CBMobileReplicationV4}[plan.Proto]
	runner.SetSubprotocols([]string{proto.SubprotocolString()})
	s.client = runner.NewBlipTesterClientOptsWithRT(w.rt, &BlipTesterClientOpts{
		Username: u.Name, AllowCreationWithoutBlipTesterClientRunner: true, ClientDeltas: plan.Deltas, sendReplacementRevs: plan.Replacement,
	})
	s.btcc = runner.SingleCollection(s.client.id)
	bc := s.client.pullReplication.bt.blipContext
	origRev := bc.HandlerForProfile[db.MessageRev]
	origNoRev := bc.HandlerForProfile[db.MessageNoRev]
	docByID := map[string]*vfC02Doc{}
	for _, d := range w.docs {
		docByID[d.ID] = d
	}
	bc.HandlerForProfile[db.MessageChanges] = func(msg *blip.Message) {
		b := vfC02MsgBytes(msg)
		body, _ := msg.Body()
		s.mu.Lock()
		s.chunks = append(s.chunks, b)
		s.mu.Unlock()
		if string(body) == "null" || msg.NoReply() {
			s.mu.Lock()
			s.caughtUp = true
			s.mu.Unlock()
			return
		}
		var rows [][]any
		if err := json.Unmarshal(body, &rows); err != nil {
			s.mu.Lock()
			s.trouble = "unreadable changes message: " + string(body)
			s.mu.Unlock()
			return
		}
		answer := make([]any, len(rows))
		for i, row := range rows {
			known := []any{}
			if len(row) > 1 {
				if id, ok := row[1].(string); ok && plan.Known[id] != nil {
					known = plan.Known[id]
				}
			}
			answer[i] = known
		}
		s.mu.Lock()
		s.expected += len(rows)
		s.mu.Unlock()
		resp := msg.Response()
		if plan.Deltas {
			resp.Properties["deltas"] = "true"
		}
		ab, _ := json.Marshal(answer)
		resp.SetBody(ab)
	}
	bc.HandlerForProfile[db.MessageRev] = func(msg *blip.Message) {
		if plan.DuringRev {
			// while this rev (and so its own attachments) is in flight, ask for every other attachment
			if d := docByID[msg.Properties[db.RevMessageID]]; d != nil {
				body, _ := msg.Body()
				for _, a := range d.Atts {
					if !strings.Contains(string(body), a.Digest) {
						s.askAttachment(a)
					}
				}
			}
		}
		if s.firstFor(msg.Properties[db.RevMessageID]) {
			origRev(msg)
		} else {
			s.ownRev(msg)
		}
		b := vfC02MsgBytes(msg)
		s.mu.Lock()
		s.chunks = append(s.chunks, b)
		s.received++
		s.revs++
		s.mu.Unlock()
	}
	bc.HandlerForProfile[db.MessageNoRev] = func(msg *blip.Message) {
		if s.firstFor(msg.Properties[db.NorevMessageId]) {
			origNoRev(msg)
		}
		b := vfC02MsgBytes(msg)
		s.mu.Lock()
		s.chunks = append(s.chunks, b)
		s.received++
		s.norevs++
		s.mu.Unlock()
	}
	return s, nil
}

func (s *vfC02BlipSession) Close() {
	defer func() { _ = recover() }()
	if s != nil && s.client != nil {
		s.client.Close()
	}
}

// has reports whether anything received so far contains the text.
func (s *vfC02BlipSession) has(text string) bool {
	s.mu.Lock()
	defer s.mu.Unlock()
	for _, c := range s.chunks {
		if strings.Contains(string(c), text) {
			return true
		}
	}
	return false
}

func (s *vfC02BlipSession) problem() string {
	s.mu.Lock()
	defer s.mu.Unlock()
	return s.trouble
}

func (w *vfC02World) runBlip(u *vfC02User, plan *vfC02BlipPlan) (s *vfC02BlipSession, err error) {
	defer func() {
		if r := recover(); r != nil {
			if ie, ok := r.(kit.InconclusiveErr); ok {
				err = ie
				return
			}
			err = vfC02Infra{fmt.Sprintf("BLIP client panic: %v", r)}
		}
	}()
	s, err = w.openBlip(u, plan)
	if err != nil {
		s.Close()
		return s, err
	}
	defer s.Close()
	s.btcc.StartPullSince(BlipTesterPullOptions{Continuous: false, Since: "0", ActiveOnly: plan.ActiveOnly, Channels: plan.Channels, DocIDs: plan.DocIDs})
	deadline := time.Now().Add(vfC02WaitBound)
	for {
		s.mu.Lock()
		done := s.caughtUp && s.received >= s.expected
		trouble := s.trouble
		exp, rec := s.expected, s.received
		s.mu.Unlock()
		if trouble != "" {
			return s, vfC02Infra{trouble}
		}
		if done {
			break
		}
		if time.Now().After(deadline) {
			return s, kit.InconclusiveErr{Msg: fmt.Sprintf("BLIP pull as %s did not complete within %v (expected %d rev/norev messages, got %d; plan %s)", u.Name, vfC02WaitBound, exp, rec, plan)}
		}
		time.Sleep(time.Millisecond)
	}
	// after the pull: nothing is in flight any more, every attachment of every document is asked for
	for _, d := range w.docs {
		for _, a := range d.Atts {
			s.askAttachment(a)
		}
	}
	// what the client stored: attachment bodies fetched while handling revs, and every stored message
	s.btcc.attachmentsLock.RLock()
	for _, data := range s.btcc._attachments {
		s.chunks = append(s.chunks, append([]byte{}, data...))
	}
	s.btcc.attachmentsLock.RUnlock()
	for _, m := range s.client.pullReplication.GetMessages() {
		// the store also holds the client's own requests (subChanges names the docIDs filter): only
		// what the gateway answered is of interest here; its requests were recorded by the handlers above
		if m.Type() != blip.RequestType {
			s.chunks = append(s.chunks, vfC02MsgBytes(m))
		}
	}
	if s.trouble != "" {
		return s, vfC02Infra{s.trouble}
	}
	return s, nil
}

// judgeBlip applies the marker oracle to everything the session obtained.
func (w *vfC02World) judgeBlip(s *vfC02BlipSession) string {
	s.mu.Lock()
	defer s.mu.Unlock()
	if v := w.judge(s.u, nil, s.chunks); v != "" {
		return v
	}
	for _, d := range w.docs {
		if cs := s.attChunks[d.ID]; len(cs) > 0 {
			if v := w.judge(s.u, map[*vfC02Doc]bool{d: true}, cs); v != "" {
				return "explicit getAttachment: " + v
			}
		}
	}
	return ""
}

// missingCurrent: an unfiltered pull from zero delivers the current revision of every document that
// is in one of the user's channels (the converse clause on the replication surface).
func (w *vfC02World) missingCurrent(s *vfC02BlipSession) string {
	if s.plan.Channels != "" || s.plan.ActiveOnly || len(s.plan.DocIDs) > 0 {
		return ""
	}
	s.mu.Lock()
	defer s.mu.Unlock()
	for _, d := range w.docs {
		win := d.Winner
		if win == nil || win.Deleted || !s.u.inChans(win.Chans) {
			continue
		}
		found := false
		for _, c := range s.chunks {
			if strings.Contains(string(c), win.Marker) {
				found = true
				break
			}
		}
		if !found {
			return fmt.Sprintf("current revision %s of %s is in channels %v, %s has %s, but an unfiltered pull from 0 did not deliver its body", win.ID, d.ID, win.Chans, s.u.Name, s.u.effString())
		}
	}
	return ""
}
