package rest

// C02 — REST read surface: probe generation, response decoding (gunzip, multipart split, base64 of
// inline attachment data) and the marker oracle.

import (
	"bytes"
	"compress/gzip"
	"encoding/base64"
	"encoding/json"
	"fmt"
	"io"
	"mime"
	"mime/multipart"
	"net/url"
	"regexp"
	"sort"
	"strings"

	"pgregory.net/rapid"
)

type vfC02Probe struct {
	Label     string   // endpoint + the flags that select a code path (the unit of the non-trivial count)
	Minor     []string // further flags, counted one by one
	Listing   bool     // nothing is named by the requester: every document is in scope
	world     []*vfC02Doc
	Method    string
	Path      string
	Body      string
	Hdr       map[string]string
	Named     map[*vfC02Doc]bool // documents whose id the requester supplied itself
	Target    *vfC02Rev          // the specific revision asked for, when there is one
	TargetDoc *vfC02Doc
}

func (p *vfC02Probe) String() string {
	s := p.Method + " " + p.Path
	if p.Body != "" {
		s += " body=" + p.Body
	}
	if len(p.Hdr) > 0 {
		keys := make([]string, 0, len(p.Hdr))
		for k := range p.Hdr {
			keys = append(keys, k)
		}
		sort.Strings(keys)
		for _, k := range keys {
			s += fmt.Sprintf(" %s:%s", k, p.Hdr[k])
		}
	}
	return s
}

// ---------------------------------------------------------------------------------------------
// response decoding

var vfC02DataRe = regexp.MustCompile(`"data"\s*:\s*"([A-Za-z0-9+/=\\]+)"`)

func vfC02Gunzip(b []byte) ([]byte, bool) {
	zr, err := gzip.NewReader(bytes.NewReader(b))
	if err != nil {
		return nil, false
	}
	out, err := io.ReadAll(zr)
	if err != nil && len(out) == 0 {
		return nil, false
	}
	return out, true
}

// vfC02Expand returns every byte string a client can obtain from a response: the raw body, the
// gunzipped body, every multipart part (recursively, gunzipped where encoded) and the decoded
// inline attachment data.
func vfC02Expand(contentType, contentEncoding string, body []byte, depth int) [][]byte {
	out := [][]byte{body}
	if depth > 4 || len(body) == 0 {
		return out
	}
	if strings.Contains(contentEncoding, "gzip") || (len(body) > 2 && body[0] == 0x1f && body[1] == 0x8b) {
		if plain, ok := vfC02Gunzip(body); ok {
			out = append(out, vfC02Expand(contentType, "", plain, depth+1)...)
			return out
		}
	}
	if mt, params, err := mime.ParseMediaType(contentType); err == nil && strings.HasPrefix(mt, "multipart/") && params["boundary"] != "" {
		mr := multipart.NewReader(bytes.NewReader(body), params["boundary"])
		for {
			part, err := mr.NextRawPart()
			if err != nil {
				break
			}
			pb, _ := io.ReadAll(part)
			var hdr []string
			for k, vs := range part.Header {
				hdr = append(hdr, k+": "+strings.Join(vs, ","))
			}
			out = append(out, []byte(strings.Join(hdr, "\n")))
			out = append(out, vfC02Expand(part.Header.Get("Content-Type"), part.Header.Get("Content-Encoding"), pb, depth+1)...)
		}
	}
	for _, m := range vfC02DataRe.FindAllSubmatch(body, -1) {
		s := strings.ReplaceAll(string(m[1]), `\/`, "/")
		if dec, err := base64.StdEncoding.DecodeString(s); err == nil {
			out = append(out, vfC02Expand("", "", dec, depth+1)...)
		}
	}
	return out
}

// found reports which markers of the world occur in the chunks.
func (w *vfC02World) found(chunks [][]byte) (revs []*vfC02Rev, atts []*vfC02Att, docs []*vfC02Doc, rejected []string) {
	has := func(s string) bool {
		bs := []byte(s)
		for _, c := range chunks {
			if bytes.Contains(c, bs) {
				return true
			}
		}
		return false
	}
	for _, d := range w.docs {
		if has(d.IDMarker) {
			docs = append(docs, d)
		}
		for _, r := range d.Revs {
			if r.Marker != "" && has(r.Marker) {
				revs = append(revs, r)
			}
		}
		for _, a := range d.Atts {
			if has(a.Marker) || has(a.B64) {
				atts = append(atts, a)
			}
		}
		for _, m := range d.Rejected {
			if has(m) {
				rejected = append(rejected, m)
			}
		}
	}
	return
}

// judge applies the non-interference oracle to what user u obtained. It returns "" or the violation.
func (w *vfC02World) judge(u *vfC02User, named map[*vfC02Doc]bool, chunks [][]byte) string {
	revs, atts, docs, rejected := w.found(chunks)
	for _, r := range revs {
		if !u.mayRev(r) {
			return fmt.Sprintf("body of revision %s of %s (channels %v, marker %s) disclosed to %s (effective channels %s)", r.ID, r.Doc.ID, r.Chans, r.Marker, u.Name, u.effString())
		}
	}
	for _, a := range atts {
		if !u.mayAtt(a) {
			var carriers []string
			for _, r := range a.Revs {
				carriers = append(carriers, fmt.Sprintf("%s%v", r.ID, r.Chans))
			}
			return fmt.Sprintf("data of attachment %q (marker %s) of %s, carried only by revisions %v, disclosed to %s (effective channels %s)", a.Name, a.Marker, a.Doc.ID, carriers, u.Name, u.effString())
		}
	}
	for _, d := range docs {
		if named[d] {
			continue
		}
		if !u.mayKnowDoc(d) {
			return fmt.Sprintf("existence of document %s (never in a channel of %s, effective channels %s) revealed", d.ID, u.Name, u.effString())
		}
	}
	if len(rejected) > 0 && !u.Star {
		return fmt.Sprintf("content of a write the gateway refused (markers %v) disclosed to %s", rejected, u.Name)
	}
	return ""
}

func (u *vfC02User) effString() string {
	var cs []string
	for c := range u.Eff {
		cs = append(cs, c)
	}
	if u.Star {
		cs = append(cs, "*")
	}
	sort.Strings(cs)
	return "[" + strings.Join(cs, ",") + "]"
}

// misKeyed: the probe targets something forbidden to u while another revision of the same document is
// allowed — the shape a mis-keyed channel check would get wrong (the non-trivial rule of C02).
func (p *vfC02Probe) misKeyed(u *vfC02User) bool {
	if u.Star {
		return false
	}
	forbidden, allowed := false, false
	if p.Target != nil {
		forbidden = !u.mayRev(p.Target)
		for _, r := range p.Target.Doc.Revs {
			if r != p.Target && u.mayRev(r) {
				allowed = true
			}
		}
		return forbidden && allowed
	}
	docs := []*vfC02Doc{}
	if p.Listing {
		for _, d := range docs0(p) {
			docs = append(docs, d)
		}
	}
	if p.TargetDoc != nil {
		docs = append(docs, p.TargetDoc)
	}
	for d := range p.Named {
		if d != p.TargetDoc {
			docs = append(docs, d)
		}
	}
	for _, d := range docs {
		f, a := false, false
		for _, r := range d.Revs {
			if r.Marker == "" {
				continue
			}
			if u.mayRev(r) {
				a = true
			} else {
				f = true
			}
		}
		if f && a {
			return true
		}
	}
	return false
}

func docs0(p *vfC02Probe) []*vfC02Doc { return p.world }

// ---------------------------------------------------------------------------------------------
// probe generation

func vfC02JSON(v any) string {
	b, _ := json.Marshal(v)
	return string(b)
}

// revPool: every version identifier a client could send for the document: all revision ids (of every
// branch, also superseded and tombstoned ones), the observed current versions, and ones that never existed.
func (d *vfC02Doc) revPool() []string {
	pool := append([]string{}, d.revIDs()...)
	pool = append(pool, d.CVs...)
	pool = append(pool, "9-ffffffff", "1@nosuchsource")
	return pool
}

func vfC02DrawRevList(rt *rapid.T, d *vfC02Doc, label string, max int) []string {
	pool := d.revPool()
	n := rapid.IntRange(0, max).Draw(rt, label+"-n")
	out := []string{}
	for i := 0; i < n; i++ {
		out = append(out, pool[rapid.IntRange(0, len(pool)-1).Draw(rt, label)])
	}
	return out
}

func vfC02DrawAccept(rt *rapid.T, hdr map[string]string) {
	switch rapid.IntRange(0, 5).Draw(rt, "accept") {
	case 0:
		hdr["Accept"] = "application/json"
	case 1:
		hdr["Accept"] = "multipart/related"
	case 2:
		hdr["Accept"] = "multipart/mixed"
	case 3:
		hdr["Accept"] = "*/*"
	}
	if rapid.IntRange(0, 3).Draw(rt, "gzip") == 0 {
		hdr["Accept-Encoding"] = "gzip"
	}
	if rapid.IntRange(0, 3).Draw(rt, "partgzip") == 0 {
		hdr["X-Accept-Part-Encoding"] = "gzip"
	}
}

func (w *vfC02World) drawDoc(rt *rapid.T) *vfC02Doc {
	return w.docs[rapid.IntRange(0, len(w.docs)-1).Draw(rt, "pdoc")]
}

func vfC02Flag(rt *rapid.T, q url.Values, labels *[]string, name string) bool {
	if rapid.Bool().Draw(rt, name) {
		q.Set(name, "true")
		*labels = append(*labels, name)
		return true
	}
	return false
}

// vfC02MinorFlags are request options that do not select a different authorisation path; they are
// counted one by one instead of multiplying the label space.
var vfC02MinorFlags = map[string]bool{"show_exp": true, "show_cv": true, "revs_from": true, "atts_since": true, "update_seq": true, "access": true, "meta": true, "version_type=cv": true, "channels": true}

func vfC02Finish(p *vfC02Probe, base string, q url.Values, labels []string) *vfC02Probe {
	p.Path = base
	if len(q) > 0 {
		p.Path += "?" + q.Encode()
	}
	core := []string{labels[0]}
	rest := append([]string{}, labels[1:]...)
	sort.Strings(rest)
	for _, l := range rest {
		if vfC02MinorFlags[l] {
			p.Minor = append(p.Minor, l)
		} else {
			core = append(core, l)
		}
	}
	p.Label = strings.Join(core, " ")
	return p
}

// genGet: GET doc with a generated flag set.
func (w *vfC02World) genGet(rt *rapid.T) *vfC02Probe {
	d := w.drawDoc(rt)
	p := &vfC02Probe{Method: "GET", Hdr: map[string]string{}, Named: map[*vfC02Doc]bool{d: true}, TargetDoc: d}
	q := url.Values{}
	labels := []string{"GET-doc"}
	mode := rapid.SampledFrom([]string{"current", "rev", "rev", "rev", "cv", "open_revs=all", "open_revs=list", "open_revs=list"}).Draw(rt, "mode")
	switch mode {
	case "rev", "cv":
		pool := d.revIDs()
		if mode == "cv" {
			pool = d.CVs
		}
		pool = append(append([]string{}, pool...), "9-ffffffff")
		rev := pool[rapid.IntRange(0, len(pool)-1).Draw(rt, "rev")]
		q.Set("rev", rev)
		p.Target = d.ByID[rev]
		labels = append(labels, "rev="+mode)
	case "open_revs=all":
		q.Set("open_revs", "all")
		labels = append(labels, mode)
	case "open_revs=list":
		q.Set("open_revs", vfC02JSON(vfC02DrawRevList(rt, d, "openrev", 3)))
		labels = append(labels, mode)
		if rapid.IntRange(0, 7).Draw(rt, "revAndOpenRevs") == 0 {
			q.Set("rev", d.revPool()[0])
		}
	}
	vfC02Flag(rt, q, &labels, "revs")
	vfC02Flag(rt, q, &labels, "attachments")
	vfC02Flag(rt, q, &labels, "show_exp")
	vfC02Flag(rt, q, &labels, "show_cv")
	if rapid.IntRange(0, 3).Draw(rt, "revs_from") == 0 {
		q.Set("revs_from", vfC02JSON(vfC02DrawRevList(rt, d, "revsfrom", 2)))
		labels = append(labels, "revs_from")
	}
	if rapid.IntRange(0, 3).Draw(rt, "atts_since") == 0 {
		q.Set("atts_since", vfC02JSON(vfC02DrawRevList(rt, d, "attssince", 2)))
		labels = append(labels, "atts_since")
	}
	if rapid.IntRange(0, 5).Draw(rt, "revs_limit") == 0 {
		q.Set("revs_limit", fmt.Sprint(rapid.IntRange(0, 3).Draw(rt, "revs_limit_n")))
	}
	if rapid.IntRange(0, 9).Draw(rt, "replicator2") == 0 {
		q.Set("replicator2", "true")
		labels = append(labels, "replicator2")
	}
	vfC02DrawAccept(rt, p.Hdr)
	return vfC02Finish(p, w.docPath(d), q, labels)
}

func (w *vfC02World) genBulkGet(rt *rapid.T) *vfC02Probe {
	p := &vfC02Probe{Method: "POST", Hdr: map[string]string{}, Named: map[*vfC02Doc]bool{}}
	q := url.Values{}
	labels := []string{"_bulk_get"}
	n := rapid.IntRange(1, 4).Draw(rt, "n")
	var items []map[string]any
	for i := 0; i < n; i++ {
		d := w.drawDoc(rt)
		p.Named[d] = true
		it := map[string]any{"id": d.ID}
		if rapid.IntRange(0, 3).Draw(rt, "withRev") != 0 {
			pool := d.revPool()
			rev := pool[rapid.IntRange(0, len(pool)-1).Draw(rt, "rev")]
			it["rev"] = rev
			if n == 1 {
				p.Target = d.ByID[rev]
			}
		}
		if rapid.IntRange(0, 3).Draw(rt, "atts_since") == 0 {
			it["atts_since"] = vfC02DrawRevList(rt, d, "attssince", 2)
		}
		if rapid.IntRange(0, 3).Draw(rt, "revs_from") == 0 {
			it["revs_from"] = vfC02DrawRevList(rt, d, "revsfrom", 2)
		}
		if rapid.IntRange(0, 5).Draw(rt, "revs_limit") == 0 {
			it["revs_limit"] = rapid.IntRange(0, 3).Draw(rt, "revs_limit_n")
		}
		items = append(items, it)
	}
	p.Body = vfC02JSON(map[string]any{"docs": items})
	vfC02Flag(rt, q, &labels, "revs")
	vfC02Flag(rt, q, &labels, "attachments")
	vfC02Flag(rt, q, &labels, "show_exp")
	switch rapid.IntRange(0, 3).Draw(rt, "accept") {
	case 0:
		p.Hdr["Accept"] = "multipart/mixed"
	case 1:
		p.Hdr["Accept"] = "application/json"
	}
	if rapid.IntRange(0, 3).Draw(rt, "gzip") == 0 {
		p.Hdr["Accept-Encoding"] = "gzip"
	}
	if rapid.IntRange(0, 2).Draw(rt, "partgzip") == 0 {
		p.Hdr["X-Accept-Part-Encoding"] = "gzip"
	}
	return vfC02Finish(p, "/"+w.ks+"/_bulk_get", q, labels)
}

func (w *vfC02World) genAllDocs(rt *rapid.T) *vfC02Probe {
	p := &vfC02Probe{Method: "GET", Hdr: map[string]string{}, Named: map[*vfC02Doc]bool{}}
	q := url.Values{}
	labels := []string{"_all_docs"}
	vfC02Flag(rt, q, &labels, "include_docs")
	vfC02Flag(rt, q, &labels, "channels")
	vfC02Flag(rt, q, &labels, "revs")
	vfC02Flag(rt, q, &labels, "update_seq")
	vfC02Flag(rt, q, &labels, "access")
	if rapid.IntRange(0, 2).Draw(rt, "keys") == 0 {
		labels = append(labels, "keys")
		keys := []string{}
		n := rapid.IntRange(1, 4).Draw(rt, "nkeys")
		for i := 0; i < n; i++ {
			if rapid.IntRange(0, 5).Draw(rt, "bogus") == 0 {
				keys = append(keys, "no-such-doc")
				continue
			}
			d := w.drawDoc(rt)
			p.Named[d] = true
			keys = append(keys, d.ID)
		}
		if rapid.Bool().Draw(rt, "post") {
			p.Method = "POST"
			p.Body = vfC02JSON(map[string]any{"keys": keys})
		} else {
			q.Set("keys", vfC02JSON(keys))
		}
	} else if rapid.IntRange(0, 4).Draw(rt, "limit") == 0 {
		q.Set("limit", fmt.Sprint(rapid.IntRange(1, 3).Draw(rt, "limit_n")))
	}
	if rapid.IntRange(0, 3).Draw(rt, "gzip") == 0 {
		p.Hdr["Accept-Encoding"] = "gzip"
	}
	p.Listing = len(p.Named) == 0
	return vfC02Finish(p, "/"+w.ks+"/_all_docs", q, labels)
}

func (w *vfC02World) genChanges(rt *rapid.T) *vfC02Probe {
	p := &vfC02Probe{Method: "GET", Hdr: map[string]string{}, Named: map[*vfC02Doc]bool{}}
	q := url.Values{}
	labels := []string{"_changes"}
	opts := map[string]any{}
	set := func(k string, v any) {
		opts[k] = v
		q.Set(k, fmt.Sprint(v))
	}
	if rapid.Bool().Draw(rt, "include_docs") {
		set("include_docs", true)
		labels = append(labels, "include_docs")
	}
	if rapid.Bool().Draw(rt, "all_docs") {
		set("style", "all_docs")
		labels = append(labels, "style=all_docs")
	}
	if rapid.Bool().Draw(rt, "active_only") {
		set("active_only", true)
		labels = append(labels, "active_only")
	}
	switch rapid.IntRange(0, 3).Draw(rt, "filter") {
	case 0:
		chans := rapid.SampledFrom([]string{"A", "B", "A,B", "!", "*", "A,!", "nosuch"}).Draw(rt, "fchans")
		set("filter", "sync_gateway/bychannel")
		set("channels", chans)
		labels = append(labels, "bychannel")
	case 1:
		ids := []string{}
		n := rapid.IntRange(1, 3).Draw(rt, "nids")
		for i := 0; i < n; i++ {
			ids = append(ids, w.drawDoc(rt).ID)
		}
		set("filter", "_doc_ids")
		opts["doc_ids"] = ids
		q.Set("doc_ids", vfC02JSON(ids))
		labels = append(labels, "doc_ids")
	}
	if rapid.IntRange(0, 3).Draw(rt, "since") == 0 {
		set("since", fmt.Sprint(rapid.IntRange(1, 12).Draw(rt, "since_n")))
	}
	if rapid.IntRange(0, 4).Draw(rt, "limit") == 0 {
		set("limit", rapid.IntRange(1, 3).Draw(rt, "limit_n"))
	}
	if rapid.IntRange(0, 4).Draw(rt, "revocations") == 0 {
		set("revocations", true)
	}
	if rapid.IntRange(0, 4).Draw(rt, "version_type") == 0 {
		set("version_type", "cv")
		labels = append(labels, "version_type=cv")
	}
	if rapid.IntRange(0, 2).Draw(rt, "post") == 0 {
		p.Method = "POST"
		p.Body = vfC02JSON(opts)
		q = url.Values{}
	}
	if rapid.IntRange(0, 3).Draw(rt, "gzip") == 0 {
		p.Hdr["Accept-Encoding"] = "gzip"
	}
	p.Listing = true
	return vfC02Finish(p, "/"+w.ks+"/_changes", q, labels)
}

func (w *vfC02World) genAttachment(rt *rapid.T) *vfC02Probe {
	d := w.drawDoc(rt)
	p := &vfC02Probe{Method: "GET", Hdr: map[string]string{}, Named: map[*vfC02Doc]bool{d: true}, TargetDoc: d}
	q := url.Values{}
	labels := []string{"GET-attachment"}
	name := rapid.SampledFrom([]string{"a0", "a0", "a1", "a1", "nosuch"}).Draw(rt, "attname")
	if rapid.IntRange(0, 3).Draw(rt, "withRev") != 0 {
		pool := d.revPool()
		rev := pool[rapid.IntRange(0, len(pool)-1).Draw(rt, "rev")]
		q.Set("rev", rev)
		p.Target = d.ByID[rev]
		labels = append(labels, "rev")
	}
	vfC02Flag(rt, q, &labels, "meta")
	if rapid.IntRange(0, 4).Draw(rt, "content_encoding") == 0 {
		q.Set("content_encoding", "false")
	}
	if rapid.IntRange(0, 4).Draw(rt, "range") == 0 {
		p.Hdr["Range"] = "bytes=0-40"
	}
	return vfC02Finish(p, w.docPath(d)+"/"+name, q, labels)
}

func (w *vfC02World) genRevsDiff(rt *rapid.T) *vfC02Probe {
	p := &vfC02Probe{Method: "POST", Hdr: map[string]string{}, Named: map[*vfC02Doc]bool{}}
	in := map[string][]string{}
	n := rapid.IntRange(1, 2).Draw(rt, "n")
	for i := 0; i < n; i++ {
		d := w.drawDoc(rt)
		p.Named[d] = true
		revs := vfC02DrawRevList(rt, d, "rev", 3)
		revs = append(revs, fmt.Sprintf("%d-unknown", rapid.IntRange(1, 6).Draw(rt, "unknownGen")))
		in[d.ID] = revs
	}
	p.Body = vfC02JSON(in)
	return vfC02Finish(p, "/"+w.ks+"/_revs_diff", url.Values{}, []string{"_revs_diff"})
}

// genAdminOnly: endpoints that exist on the admin interface only, requested on the public one.
func (w *vfC02World) genAdminOnly(rt *rapid.T) *vfC02Probe {
	d := w.drawDoc(rt)
	p := &vfC02Probe{Method: "GET", Hdr: map[string]string{}, Named: map[*vfC02Doc]bool{d: true}, TargetDoc: d}
	id := url.PathEscape(d.ID)
	path := rapid.SampledFrom([]string{
		"/" + w.ks + "/_raw/" + id,
		"/" + w.ks + "/_raw/" + id + "?include_doc=true&redact=false",
		"/" + w.ks + "/_revtree/" + id,
		"/" + w.ks + "/_channel_history/" + id,
		"/" + w.ks + "/_dumpchannel/A",
		"/" + w.ks + "/_dumpchannel/B",
		"/" + w.dbName + "/_design/sync_gateway/_view/channels?include_docs=true",
		"/" + w.dbName + "/_design/sync_gateway/_view/all_docs",
		"/" + w.dbName + "/_dump/channels",
		"/" + w.ks + "/_local/" + id,
	}).Draw(rt, "adminPath")
	if strings.Contains(path, "_dump") || strings.Contains(path, "_design") {
		// listing-type: nothing was named by the requester
		p.Named = map[*vfC02Doc]bool{}
		p.TargetDoc = nil
	}
	p.Path = path
	p.Label = "admin-only"
	return p
}

func (w *vfC02World) genProbe(rt *rapid.T) *vfC02Probe {
	switch rapid.SampledFrom([]string{"get", "get", "get", "get", "get", "bulkget", "bulkget", "alldocs", "alldocs", "changes", "changes", "att", "att", "revsdiff", "admin"}).Draw(rt, "probe") {
	case "get":
		return w.genGet(rt)
	case "bulkget":
		return w.genBulkGet(rt)
	case "alldocs":
		return w.genAllDocs(rt)
	case "changes":
		return w.genChanges(rt)
	case "att":
		return w.genAttachment(rt)
	case "revsdiff":
		return w.genRevsDiff(rt)
	}
	return w.genAdminOnly(rt)
}

// systematic: the enumerated part of the thorough tier — every document × every version identifier ×
// the flag sets that select different code paths, and every listing flag combination.
func (w *vfC02World) systematic() []*vfC02Probe {
	var out []*vfC02Probe
	add := func(label, method, path, body string, hdr map[string]string, named []*vfC02Doc, target *vfC02Rev, tdoc *vfC02Doc) {
		p := &vfC02Probe{Label: label, Method: method, Path: path, Body: body, Hdr: hdr, Named: map[*vfC02Doc]bool{}, Target: target, TargetDoc: tdoc}
		if p.Hdr == nil {
			p.Hdr = map[string]string{}
		}
		for _, d := range named {
			p.Named[d] = true
		}
		p.Listing = len(named) == 0
		out = append(out, p)
	}
	for _, d := range w.docs {
		all := d.revIDs()
		for _, rev := range append([]string{""}, d.revPool()...) {
			for _, flags := range []string{"", "revs=true", "attachments=true", "revs=true&attachments=true&show_exp=true", "attachments=true&atts_since=" + url.QueryEscape(vfC02JSON(all))} {
				q := flags
				if rev != "" {
					if q != "" {
						q += "&"
					}
					q += "rev=" + url.QueryEscape(rev)
				}
				path := w.docPath(d)
				if q != "" {
					path += "?" + q
				}
				add("sys GET-doc "+flags, "GET", path, "", nil, []*vfC02Doc{d}, d.ByID[rev], d)
			}
			for _, name := range []string{"a0", "a1"} {
				path := w.docPath(d) + "/" + name
				if rev != "" {
					path += "?rev=" + url.QueryEscape(rev)
				}
				add("sys GET-attachment", "GET", path, "", nil, []*vfC02Doc{d}, d.ByID[rev], d)
			}
		}
		for _, flags := range []string{"", "&revs=true", "&attachments=true", "&revs=true&attachments=true"} {
			add("sys open_revs=all"+flags, "GET", w.docPath(d)+"?open_revs=all"+flags, "", map[string]string{"Accept": "application/json"}, []*vfC02Doc{d}, nil, d)
			add("sys open_revs=all multipart"+flags, "GET", w.docPath(d)+"?open_revs=all"+flags, "", map[string]string{"Accept": "multipart/mixed"}, []*vfC02Doc{d}, nil, d)
			add("sys open_revs=list"+flags, "GET", w.docPath(d)+"?open_revs="+url.QueryEscape(vfC02JSON(all))+flags, "", map[string]string{"Accept": "application/json"}, []*vfC02Doc{d}, nil, d)
		}
		var items []map[string]any
		for _, rev := range d.revPool() {
			items = append(items, map[string]any{"id": d.ID, "rev": rev})
		}
		items = append(items, map[string]any{"id": d.ID})
		for _, flags := range []string{"", "?revs=true", "?attachments=true", "?revs=true&attachments=true"} {
			add("sys _bulk_get"+flags, "POST", "/"+w.ks+"/_bulk_get"+flags, vfC02JSON(map[string]any{"docs": items}), nil, []*vfC02Doc{d}, nil, d)
			add("sys _bulk_get gzip-parts"+flags, "POST", "/"+w.ks+"/_bulk_get"+flags, vfC02JSON(map[string]any{"docs": items}), map[string]string{"X-Accept-Part-Encoding": "gzip"}, []*vfC02Doc{d}, nil, d)
		}
	}
	var ids []string
	for _, d := range w.docs {
		ids = append(ids, d.ID)
	}
	for _, inc := range []string{"", "include_docs=true"} {
		for _, ch := range []string{"", "channels=true"} {
			for _, rv := range []string{"", "revs=true"} {
				q := strings.Join(vfC02NonEmpty(inc, ch, rv), "&")
				add("sys _all_docs "+q, "GET", "/"+w.ks+"/_all_docs?"+q, "", nil, nil, nil, nil)
				add("sys _all_docs keys "+q, "POST", "/"+w.ks+"/_all_docs?"+q, vfC02JSON(map[string]any{"keys": ids}), nil, w.docs, nil, nil)
			}
		}
	}
	for _, inc := range []string{"", "include_docs=true"} {
		for _, st := range []string{"", "style=all_docs"} {
			for _, ao := range []string{"", "active_only=true"} {
				for _, f := range []string{"", "filter=sync_gateway/bychannel&channels=A", "filter=sync_gateway/bychannel&channels=B", "filter=sync_gateway/bychannel&channels=*", "filter=_doc_ids&doc_ids=" + url.QueryEscape(vfC02JSON(ids))} {
					q := strings.Join(vfC02NonEmpty(inc, st, ao, f), "&")
					add("sys _changes "+strings.Join(vfC02NonEmpty(inc, st, ao), " "), "GET", "/"+w.ks+"/_changes?"+q, "", nil, nil, nil, nil)
				}
			}
		}
	}
	return out
}

func vfC02NonEmpty(ss ...string) []string {
	var out []string
	for _, s := range ss {
		if s != "" {
			out = append(out, s)
		}
	}
	return out
}
