package rest

// C02 — test functions: one generated world per case, then the probe phase for every user.
//   TestVerif_C02_Rest : REST read surface (generated subset per user in quick, + enumerated product in thorough)
//   TestVerif_C02_Blip : replication-protocol surface with the repository's BlipTesterClient
// Oracle: non-interference by marker + the current-revision converse (probe file / world file).

import (
	"fmt"
	"net/url"
	"strings"
	"testing"

	kit "github.com/couchbase/sync_gateway/verifkit"
	"pgregory.net/rapid"
)

type vfC02Case struct {
	w          *vfC02World
	rec        *kit.Rec
	test       string
	rt         *rapid.T
	classes    []string
	nontrivial bool
	responses  int
	converse   int
}

func (c *vfC02Case) fail(format string, args ...any) {
	msg := fmt.Sprintf(format, args...)
	kit.Violation(c.rt, "C02", c.test, c.w.render(), "%s\nmodel:%s", msg, c.w.summary())
}

func (c *vfC02Case) infra(err error) {
	c.rec.Inconclusive()
	kit.InconclusiveLine("C02", "%v (case: %s)", err, vfC02Clip(c.w.render(), 600))
	c.rt.Skip()
}

// build generates and executes the world's write history.
func vfC02Build(t *testing.T, rt *rapid.T, rec *kit.Rec, test string) *vfC02Case {
	w, err := vfC02NewWorld(t, rt)
	c := &vfC02Case{w: w, rec: rec, test: test, rt: rt}
	if err != nil {
		if w != nil {
			w.Close()
		}
		c.infra(err)
	}
	nSteps := rapid.IntRange(4, kit.Pick(16, 24)).Draw(rt, "steps")
	for i := 0; i < nSteps; i++ {
		if err := w.step(rt); err != nil {
			w.Close()
			c.infra(err)
		}
	}
	if err := w.finish(); err != nil {
		w.Close()
		c.infra(err)
	}
	for k := range w.classes {
		c.classes = append(c.classes, "world:"+k)
	}
	for i := 0; i < w.excluded13; i++ {
		rec.Excluded(vfC02SigAtt)
	}
	if w.knownStamp {
		for i := 0; i < w.stamped; i++ {
			rec.Excluded(vfC02SigStamp)
		}
	}
	nAtt, nMoved := 0, 0
	for _, d := range w.docs {
		nAtt += len(d.Atts)
		seen := map[string]bool{}
		for _, r := range d.Revs {
			if r.Marker != "" {
				seen[strings.Join(r.Chans, ",")] = true
			}
		}
		if len(seen) > 1 {
			nMoved++
		}
	}
	if nAtt > 0 {
		c.classes = append(c.classes, "world:attachments")
	}
	if nMoved > 0 {
		c.classes = append(c.classes, "world:channel-move")
	}
	return c
}

// cacheMode prepares the revision cache as drawn: left as the writes left it, flushed, or flushed and
// then warmed by the administrator reading every version of every document.
func (c *vfC02Case) cacheMode(mode string) {
	w := c.w
	switch mode {
	case "cold":
		w.rt.GetDatabase().FlushRevisionCacheForTest()
	case "warm":
		w.rt.GetDatabase().FlushRevisionCacheForTest()
		for _, d := range w.docs {
			if len(d.Revs) == 0 {
				continue
			}
			w.send("", "GET", w.docPath(d), "", nil)
			for _, rev := range d.revPool() {
				w.send("", "GET", w.docPath(d)+"?rev="+url.QueryEscape(rev)+"&revs=true&attachments=true", "", nil)
			}
		}
	}
}

// runProbe sends one probe as the user and applies the oracle to everything that came back.
func (c *vfC02Case) runProbe(u *vfC02User, p *vfC02Probe) {
	w := c.w
	p.world = w.docs
	resp := w.send(u.Name, p.Method, p.Path, p.Body, p.Hdr)
	c.responses++
	var hdr []string
	for k, vs := range resp.Hdr {
		hdr = append(hdr, k+": "+strings.Join(vs, ","))
	}
	chunks := append([][]byte{[]byte(strings.Join(hdr, "\n"))}, vfC02Expand(resp.Hdr.Get("Content-Type"), resp.Hdr.Get("Content-Encoding"), resp.Body, 0)...)
	if v := w.judge(u, p.Named, chunks); v != "" {
		w.logf("%s: %s => %d", u.Name, p, resp.Code)
		c.fail("%s\nrequest by %s: %s\nresponse %d: %s", v, u.Name, p, resp.Code, vfC02Clip(string(vfC02Printable(chunks)), 1500))
	}
	if resp.Code >= 500 {
		c.classes = append(c.classes, fmt.Sprintf("status-%d:%s", resp.Code, strings.SplitN(p.Label, " ", 2)[0]))
	}
	if p.misKeyed(u) {
		c.nontrivial = true
		c.rec.Class("miskeyed:"+p.Label, 1)
		for _, m := range p.Minor {
			c.rec.Class("miskeyed-with:"+m, 1)
		}
	}
}

func vfC02Printable(chunks [][]byte) []byte {
	var out []byte
	for i, c := range chunks {
		if i > 3 {
			break
		}
		for _, b := range c {
			if b < 32 && b != '\n' || b > 126 {
				b = '.'
			}
			out = append(out, b)
		}
		out = append(out, '\n')
	}
	return out
}

// converse: the current revision of a document in one of the user's channels is readable.
func (c *vfC02Case) converseFor(u *vfC02User) {
	w := c.w
	for _, d := range w.docs {
		win := d.Winner
		if win == nil || win.Deleted || !u.inChans(win.Chans) {
			continue
		}
		for _, path := range []string{w.docPath(d), w.docPath(d) + "?rev=" + url.QueryEscape(win.ID)} {
			resp := w.send(u.Name, "GET", path, "", nil)
			c.converse++
			if resp.Code != 200 || !strings.Contains(string(resp.Body), win.Marker) {
				w.logf("%s: GET %s => %d", u.Name, path, resp.Code)
				c.fail("current revision %s of %s is in channels %v, %s has %s, but GET %s answered %d %s", win.ID, d.ID, win.Chans, u.Name, u.effString(), path, resp.Code, vfC02Clip(string(resp.Body), 300))
			}
		}
	}
}

func vfC02CaseClasses(c *vfC02Case) []string {
	seen := map[string]bool{}
	var out []string
	for _, k := range c.classes {
		if !seen[k] {
			seen[k] = true
			out = append(out, k)
		}
	}
	return out
}

// vfC02Regression13 executes the minimal reproduction of the listed finding as a disclosure path.
func vfC02Regression13(t *testing.T) (reproduced bool, detail string) {
	defer func() {
		if r := recover(); r != nil {
			reproduced, detail = false, fmt.Sprintf("panic: %v", r)
		}
	}()
	rt := NewRestTester(t, &RestTesterConfig{SyncFn: vfC02SyncFn})
	defer rt.Close()
	rt.GetDatabase().EnableAllowConflicts(t)
	w := &vfC02World{t: t, rt: rt, ks: rt.GetSingleKeyspace(), dbName: rt.GetDatabase().Name}
	ds := rt.GetSingleDataStore()
	if r := w.send("", "PUT", "/"+w.dbName+"/_user/uB", GetUserPayload(t, "", RestTesterDefaultUserPassword, "", ds, []string{"B"}, nil), nil); r.Code != 201 {
		return false, fmt.Sprintf("create user: %d", r.Code)
	}
	base := "/" + w.ks
	if r := w.send("", "POST", base+"/_bulk_docs", `{"new_edits":false,"docs":[{"_id":"x","_rev":"1-a","_revisions":{"start":1,"ids":["a"]},"chan":["B"]}]}`, nil); r.Code != 201 {
		return false, fmt.Sprintf("write 1-a: %d %s", r.Code, r.Body)
	}
	if r := w.send("", "POST", base+"/_bulk_docs", `{"new_edits":false,"docs":[{"_id":"x","_rev":"2-bbb","_revisions":{"start":2,"ids":["bbb","a"]},"chan":["B"]}]}`, nil); r.Code != 201 {
		return false, fmt.Sprintf("write 2-bbb: %d %s", r.Code, r.Body)
	}
	// 2-aaa loses against 2-bbb; it is in channel A only and carries an attachment
	if r := w.send("", "POST", base+"/_bulk_docs", `{"new_edits":false,"docs":[{"_id":"x","_rev":"2-aaa","_revisions":{"start":2,"ids":["aaa","a"]},"chan":["A"],"_attachments":{"att":{"content_type":"text/plain","data":"U0VDUkVULW9mLWNoYW5uZWwtQQ=="}}}]}`, nil); r.Code != 201 {
		return false, fmt.Sprintf("write 2-aaa: %d %s", r.Code, r.Body)
	}
	r := w.send("uB", "GET", base+"/x/att", "", nil)
	if r.Code == 200 && strings.Contains(string(r.Body), "SECRET-of-channel-A") {
		return true, "GET x/att as uB (channel B only) returns the attachment written on 2-aaa (channel A only)"
	}
	r2 := w.send("uB", "GET", base+"/x?attachments=true", "", nil)
	if strings.Contains(string(r2.Body), "U0VDUkVULW9mLWNoYW5uZWwtQQ") {
		return true, "GET x?attachments=true as uB returns the attachment data of 2-aaa"
	}
	return false, fmt.Sprintf("GET x/att as uB: %d; GET x?attachments=true: %d", r.Code, r2.Code)
}

// vfC02RegressionStamp executes the minimal reproduction of vfC02SigStamp.
func vfC02RegressionStamp(t *testing.T) (reproduced bool, detail string) {
	defer func() {
		if r := recover(); r != nil {
			reproduced, detail = false, fmt.Sprintf("panic: %v", r)
		}
	}()
	rt := NewRestTester(t, &RestTesterConfig{SyncFn: vfC02SyncFn})
	defer rt.Close()
	rt.GetDatabase().EnableAllowConflicts(t) // only to create the two live branches (legacy data)
	w := &vfC02World{t: t, rt: rt, ks: rt.GetSingleKeyspace(), dbName: rt.GetDatabase().Name}
	ds := rt.GetSingleDataStore()
	if r := w.send("", "PUT", "/"+w.dbName+"/_user/uA", GetUserPayload(t, "", RestTesterDefaultUserPassword, "", ds, []string{"A"}, nil), nil); r.Code != 201 {
		return false, fmt.Sprintf("create user: %d", r.Code)
	}
	base := "/" + w.ks
	if r := w.send("", "POST", base+"/_bulk_docs", `{"new_edits":false,"docs":[{"_id":"x","_rev":"1-bea","_revisions":{"start":1,"ids":["bea"]},"chan":["A"],"m":"in-A"}]}`, nil); r.Code != 201 {
		return false, fmt.Sprintf("write 1-bea: %d %s", r.Code, r.Body)
	}
	if r := w.send("", "POST", base+"/_bulk_docs", `{"new_edits":false,"docs":[{"_id":"x","_rev":"1-5m","_revisions":{"start":1,"ids":["5m"]},"chan":["B"],"m":"SECRET-of-channel-B"}]}`, nil); r.Code != 201 {
		return false, fmt.Sprintf("write 1-5m: %d %s", r.Code, r.Body)
	}
	rt.GetDatabase().Options.AllowConflicts = nil
	// resolving the conflict the usual way (tombstone the losing branch) is accepted in conflict-free mode too
	if r := w.send("", "DELETE", base+"/x?rev=1-5m", "", nil); r.Code != 200 {
		return false, fmt.Sprintf("DELETE x?rev=1-5m: %d %s", r.Code, r.Body)
	}
	rt.GetDatabase().FlushRevisionCacheForTest() // any cache miss: eviction, restart, another node
	r := w.send("uA", "GET", base+"/x?rev=1-5m", "", nil)
	if r.Code == 200 && strings.Contains(string(r.Body), "SECRET-of-channel-B") {
		return true, "after DELETE x?rev=1-5m (losing branch, channel B) and a revision-cache miss, GET x?rev=1-5m as uA (channel A only) returns the body of 1-5m"
	}
	return false, fmt.Sprintf("GET x?rev=1-5m as uA: %d %s", r.Code, vfC02Clip(string(r.Body), 200))
}

func vfC02ReportKnown(t *testing.T) {
	if kit.Known("C02", vfC02SigAtt) {
		if ok, detail := vfC02Regression13(t); ok {
			kit.KnownFinding("C02", vfC02SigAtt, detail)
		} else {
			kit.Note("C02", "listed finding %s did not reproduce: %s", vfC02SigAtt, detail)
		}
	}
	if kit.Known("C02", vfC02SigStamp) {
		if ok, detail := vfC02RegressionStamp(t); ok {
			kit.KnownFinding("C02", vfC02SigStamp, detail)
		} else {
			kit.Note("C02", "listed finding %s did not reproduce: %s", vfC02SigStamp, detail)
		}
	}
}

func TestVerif_C02_Rest(t *testing.T) {
	rec := kit.New("C02", "Rest")
	defer rec.Flush()
	perUser := kit.Param("probes", kit.Pick(12, 40))
	rapid.Check(t, func(rt *rapid.T) {
		c := vfC02Build(t, rt, rec, "Rest")
		w := c.w
		defer w.Close()
		kit.Guard(rt, "C02", "Rest", w.render, func() {
			mode := rapid.SampledFrom([]string{"asis", "cold", "warm"}).Draw(rt, "cache")
			w.logf("cache=%s", mode)
			c.classes = append(c.classes, "cache="+mode)
			c.cacheMode(mode)
			for _, u := range vfC02Users {
				if rapid.IntRange(0, 3).Draw(rt, "reflush") == 0 {
					c.cacheMode("cold")
				}
				converseFirst := rapid.Bool().Draw(rt, "converseFirst")
				if converseFirst {
					c.converseFor(u)
				}
				for i := 0; i < perUser; i++ {
					c.runProbe(u, w.genProbe(rt))
				}
				if kit.Thorough() {
					for _, p := range w.systematic() {
						c.runProbe(u, p)
					}
				}
				if !converseFirst {
					c.converseFor(u)
				}
			}
		})
		rec.Class("responses", int64(c.responses))
		rec.Class("converse-reads", int64(c.converse))
		rec.Case(w.render(), c.nontrivial, vfC02CaseClasses(c)...)
	})
	vfC02ReportKnown(t)
}

func TestVerif_C02_Blip(t *testing.T) {
	rec := kit.New("C02", "Blip")
	defer rec.Flush()
	rapid.Check(t, func(rt *rapid.T) {
		c := vfC02Build(t, rt, rec, "Blip")
		w := c.w
		defer w.Close()
		kit.Guard(rt, "C02", "Blip", w.render, func() {
			mode := rapid.SampledFrom([]string{"asis", "cold", "warm"}).Draw(rt, "cache")
			w.logf("cache=%s", mode)
			c.classes = append(c.classes, "cache="+mode)
			c.cacheMode(mode)
			nUsers := kit.Pick(2, len(vfC02Users))
			first := rapid.IntRange(0, len(vfC02Users)-1).Draw(rt, "firstUser")
			for k := 0; k < nUsers; k++ {
				u := vfC02Users[(first+k)%len(vfC02Users)]
				plan := w.genBlipPlan(rt)
				w.logf("BLIP pull as %s: %s", u.Name, plan)
				s, err := w.runBlip(u, plan)
				if err != nil {
					c.infra(err)
				}
				c.classes = append(c.classes, "blip:"+plan.Proto)
				rec.Class("blip-rev-messages", int64(s.revs))
				rec.Class("blip-norev-messages", int64(s.norevs))
				rec.Class("blip-repeated-rev-for-document", int64(s.repeats))
				rec.Class("blip-getAttachment-asked", int64(s.attAsked))
				rec.Class("blip-getAttachment-served", int64(s.attServed))
				if v := w.judgeBlip(s); v != "" {
					c.fail("%s\nBLIP session of %s: %s", v, u.Name, plan)
				}
				if v := w.missingCurrent(s); v != "" {
					c.fail("%s\nBLIP session of %s: %s", v, u.Name, plan)
				}
				// non-trivial: the user may see some but not all content of a document the pull touched
				if !u.Star {
					for _, d := range w.docs {
						f, a := false, false
						for _, r := range d.Revs {
							if r.Marker == "" {
								continue
							}
							if u.mayRev(r) {
								a = true
							} else {
								f = true
							}
						}
						if f && a {
							c.nontrivial = true
							rec.Class("miskeyed:blip-pull", 1)
							break
						}
					}
				}
			}
		})
		rec.Case(w.render(), c.nontrivial, vfC02CaseClasses(c)...)
	})
	vfC02ReportKnown(t)
}
