package rest

// C06 — replicating peers converge. Two gateways (RestTester pairs) replicate with inter-Sync-Gateway
// replication; generated histories of edits/deletes/resurrections on either peer interleaved with
// one-shot runs (synchronous or in the background) and continuous replications that are started
// and stopped. Oracle at a *logical* barrier (one-shot runs repeated until one transfers nothing):
// agreement on current revision (rev-tree id under the legacy protocol, current version under the
// version-vector protocol), body and tombstone state; reaching the fix-point within a bounded number
// of runs is itself the "re-running a caught-up replication transfers no revisions" clause.

import (
	"os"
	"encoding/json"
	"fmt"
	"net/http/httptest"
	"net/url"
	"reflect"
	"sort"
	"strings"
	"testing"
	"time"

	"github.com/couchbase/sync_gateway/base"
	"github.com/couchbase/sync_gateway/channels"
	"github.com/couchbase/sync_gateway/db"
	kit "github.com/couchbase/sync_gateway/verifkit"
	"pgregory.net/rapid"
)

const vfC06WaitBound = 90 * time.Second

type vfC06Peers struct {
	active, passive *RestTester
	srv             *httptest.Server
	remote          string
	nRepl           int
	bgRuns          []string // one-shot runs started in the background
	continuousID    string
	direction       db.ActiveReplicatorDirection
}

func vfC06Setup(t *testing.T, proto []string) (p *vfC06Peers, err error) {
	return vfC06SetupOpts(t, proto, nil)
}

func vfC06SetupOpts(t *testing.T, proto []string, unsupported *db.UnsupportedOptions) (p *vfC06Peers, err error) {
	defer func() {
		if r := recover(); r != nil {
			err = fmt.Errorf("setup panic: %v", r)
		}
	}()
	passive := NewRestTester(t, &RestTesterConfig{
		DatabaseConfig: &DatabaseConfig{DbConfig: DbConfig{Name: "passivedb", Unsupported: unsupported}},
		SyncFn:         channels.DocChannelsSyncFunction,
	})
	passive.CreateUser("alice", []string{"*"})
	srv := httptest.NewServer(passive.TestPublicHandler())
	u, _ := url.Parse(srv.URL + "/" + passive.GetDatabase().Name)
	u.User = url.UserPassword("alice", RestTesterDefaultUserPassword)
	active := NewRestTester(t, &RestTesterConfig{
		DatabaseConfig:     &DatabaseConfig{DbConfig: DbConfig{Name: "activedb", Unsupported: unsupported}},
		SgReplicateEnabled: true,
		SyncFn:             channels.DocChannelsSyncFunction,
	})
	_ = active.Bucket()
	active.GetDatabase().SGReplicateMgr.SupportedBLIPSubprotocols = proto
	return &vfC06Peers{active: active, passive: passive, srv: srv, remote: u.String()}, nil
}

// vfC06TB lets the repository's asserting wait helper report a timeout as an error instead of
// aborting the outer test.
type vfC06TB struct{ testing.TB }

func (f vfC06TB) Helper()                           {}
func (f vfC06TB) Errorf(format string, args ...any) {}
func (f vfC06TB) Error(args ...any)                 {}
func (f vfC06TB) Fail()                             {}
func (f vfC06TB) FailNow()                          { panic(kit.InconclusiveErr{Msg: "cache catch-up wait expired"}) }
func (f vfC06TB) Fatalf(format string, args ...any) { panic(kit.InconclusiveErr{Msg: fmt.Sprintf(format, args...)}) }
func (f vfC06TB) Fatal(args ...any)                 { panic(kit.InconclusiveErr{Msg: fmt.Sprint(args...)}) }

// waitCaughtUp waits until both peers' caching feeds have processed every sequence allocated so far.
// "Once replication has caught up" presupposes that the local writes are visible to the changes feed
// the replicator reads; a one-shot run started before that legitimately replicates nothing.
func (p *vfC06Peers) waitCaughtUp(t *testing.T) (err error) {
	defer func() {
		if r := recover(); r != nil {
			if ie, ok := r.(kit.InconclusiveErr); ok {
				err = ie
				return
			}
			panic(r)
		}
	}()
	p.active.GetDatabase().WaitForPendingChanges(vfC06TB{t})
	p.passive.GetDatabase().WaitForPendingChanges(vfC06TB{t})
	return nil
}

func (p *vfC06Peers) Close() {
	defer func() { _ = recover() }()
	p.active.Close()
	p.srv.Close()
	p.passive.Close()
}

func (p *vfC06Peers) rt(side string) *RestTester {
	if side == "A" {
		return p.active
	}
	return p.passive
}

type vfC06DocState struct {
	Exists  bool
	Deleted bool
	Rev     string
	CV      string
	Body    map[string]any
	Tree    string // all revisions as id<-parent, tombstones marked, sorted (diagnostics only)
	HLV     string
	Revs    map[string]vfC06Rev
}

type vfC06Rev struct {
	Parent  string
	Deleted bool
	Leaf    bool
}

// Known-finding signatures (see known-findings.json / DESIGN §5a). Both are schedule-dependent
// (push and pull of one bidirectional run racing), so they are recognised structurally in the
// end state instead of being excluded from the generator.
const (
	vfC06SigLostTombstone = "isgr-delete-wins-tombstone-of-losing-branch-never-pushed"
	vfC06SigTombstoneCV   = "isgr-concurrent-tombstones-keep-different-cv"
)

// vfC06LostTombstone recognises: X's current revision R is live, and on Y the same R carries a
// tombstoned leaf child T that is not Y's current revision and that X has never received. That is the
// end state of "Y resolved a conflict as delete-wins by tombstoning its branch R, but the pre-resolution
// push of R had already been accepted by X on top of X's tombstoned document; T loses against Y's other
// tombstone, is never advertised, so X keeps R alive".
func vfC06LostTombstone(x, y vfC06DocState) bool {
	if !x.Exists || !y.Exists || x.Deleted {
		return false
	}
	for id, r := range y.Revs {
		if r.Parent == x.Rev && r.Deleted && r.Leaf && id != y.Rev {
			if _, has := x.Revs[id]; !has {
				return true
			}
		}
	}
	return false
}

func vfC06Read(rt *RestTester, id string) (vfC06DocState, error) {
	coll, ctx := rt.GetSingleTestDatabaseCollection()
	doc, err := coll.GetDocument(ctx, id, db.DocUnmarshalAll)
	if err != nil {
		if base.IsDocNotFoundError(err) {
			return vfC06DocState{}, nil
		}
		return vfC06DocState{}, err
	}
	st := vfC06DocState{Exists: true, Deleted: doc.IsDeleted(), Rev: doc.GetRevTreeID()}
	if doc.HLV != nil {
		st.CV = doc.HLV.GetCurrentVersionString()
		st.HLV = fmt.Sprintf("cv=%s pv=%v mv=%v", st.CV, doc.HLV.PreviousVersions, doc.HLV.MergeVersions)
	}
	var revs []string
	st.Revs = map[string]vfC06Rev{}
	isParent := map[string]bool{}
	for _, info := range doc.History {
		isParent[info.Parent] = true
	}
	for id, info := range doc.History {
		st.Revs[id] = vfC06Rev{Parent: info.Parent, Deleted: info.Deleted, Leaf: !isParent[id]}
		r := id[:min(len(id), 8)] + "<-" + info.Parent[:min(len(info.Parent), 8)]
		if info.Deleted {
			r += "(del)"
		}
		revs = append(revs, r)
	}
	sort.Strings(revs)
	st.Tree = strings.Join(revs, " ")
	if !st.Deleted {
		bb, err := doc.BodyBytes(ctx)
		if err != nil {
			return st, err
		}
		var m map[string]any
		dec := json.NewDecoder(strings.NewReader(string(bb)))
		dec.UseNumber()
		if err := dec.Decode(&m); err != nil {
			return st, err
		}
		st.Body = m
	}
	return st, nil
}

// startOneShot creates a one-shot replication with a fresh id (so it starts from scratch) and returns the id.
func (p *vfC06Peers) startRepl(continuous bool) (string, error) {
	p.nRepl++
	id := fmt.Sprintf("r%d", p.nRepl)
	cfg := &db.ReplicationConfig{ID: id, Direction: p.direction, Remote: p.remote, Continuous: continuous,
		ConflictResolutionType: db.ConflictResolverDefault, CollectionsEnabled: base.TestsUseNamedCollections()}
	payload, _ := json.Marshal(cfg)
	resp := p.active.SendAdminRequest("POST", "/{{.db}}/_replication/", string(payload))
	if resp.Code != 201 {
		return "", fmt.Errorf("create replication %s: %d %s", id, resp.Code, resp.Body.String())
	}
	return id, nil
}

func (p *vfC06Peers) status(id string) (db.ReplicationStatus, error) {
	var st db.ReplicationStatus
	resp := p.active.SendAdminRequest("GET", "/{{.db}}/_replicationStatus/"+id, "")
	if resp.Code != 200 {
		return st, fmt.Errorf("status %s: %d %s", id, resp.Code, resp.Body.String())
	}
	err := base.JSONUnmarshal(resp.Body.Bytes(), &st)
	return st, err
}

// targetState reads the replication's configured target state. A one-shot replication is created
// with target state "running"; the manager sets it to "stopped" only when the run has completed
// (or an admin stops it), so it is a race-free completion signal — the *status* alone also reads
// "stopped" before the assigned node has started the replication.
func (p *vfC06Peers) targetState(id string) (string, error) {
	cfg, err := p.active.GetDatabase().SGReplicateMgr.GetReplication(id)
	if err != nil {
		return "", err
	}
	if cfg == nil {
		return "", fmt.Errorf("replication %s not found", id)
	}
	return cfg.TargetState, nil
}

// waitStopped waits until the replication's target state is "stopped" (run completed or admin
// stop) and its status reports stopped. A run that ends in error state is reported as an error
// (infrastructure), a bound that expires as inconclusive.
func (p *vfC06Peers) waitStopped(id string) (db.ReplicationStatus, error) {
	deadline := time.Now().Add(vfC06WaitBound)
	for {
		target, err := p.targetState(id)
		if err != nil {
			return db.ReplicationStatus{}, err
		}
		st, err := p.status(id)
		if err != nil {
			return st, err
		}
		if st.Status == db.ReplicationStateError {
			return st, fmt.Errorf("replication %s in error state: %s", id, st.ErrorMessage)
		}
		if target == db.ReplicationStateStopped && st.Status == db.ReplicationStateStopped {
			return st, nil
		}
		if time.Now().After(deadline) {
			return st, kit.InconclusiveErr{Msg: fmt.Sprintf("replication %s did not stop within %v (target %s, status %s)", id, vfC06WaitBound, target, st.Status)}
		}
		time.Sleep(5 * time.Millisecond)
	}
}

func (p *vfC06Peers) stopContinuous() error {
	if p.continuousID == "" {
		return nil
	}
	id := p.continuousID
	p.continuousID = ""
	resp := p.active.SendAdminRequest("PUT", "/{{.db}}/_replicationStatus/"+id+"?action=stop", "")
	if resp.Code != 200 {
		return fmt.Errorf("stop %s: %d %s", id, resp.Code, resp.Body.String())
	}
	_, err := p.waitStopped(id)
	return err
}

func vfC06StripBody(m map[string]any) map[string]any {
	out := map[string]any{}
	for k, v := range m {
		if strings.HasPrefix(k, "_") {
			continue
		}
		out[k] = v
	}
	return out
}

// vfC06ResurrectedOnLostTombstone recognises the second symptom of the same root cause: X's live
// current revision descends from a tombstone D that Y has never received (D is the tombstone the
// delete-wins resolution put on X's losing branch; Y rejected that branch as a conflict, so a later
// local edit on X, which extends D because D out-generations the pulled tombstone, can never be pushed).
func vfC06ResurrectedOnLostTombstone(x, y vfC06DocState) bool {
	if !x.Exists || !y.Exists || x.Deleted {
		return false
	}
	for id, n := x.Revs[x.Rev].Parent, 0; id != "" && n < 1000; id, n = x.Revs[id].Parent, n+1 {
		r, ok := x.Revs[id]
		if !ok {
			return false
		}
		if r.Deleted {
			if _, has := y.Revs[id]; !has {
				return true
			}
		}
	}
	return false
}

func TestVerif_C06_ISGR(t *testing.T) {
	rec := kit.New("C06", "ISGR")
	defer rec.Flush()
	docIDs := []string{"d0", "d1", "d2"}
	docPick := []string{"d0", "d0", "d0", "d0", "d1", "d1", "d2"} // skewed so that both peers meet on the same document
	rapid.Check(t, func(rt *rapid.T) {
		protoName := rapid.SampledFrom([]string{"v4", "v3"}).Draw(rt, "protocol")
		proto := []string{db.CBMobileReplicationV4.SubprotocolString()}
		if protoName == "v3" {
			proto = []string{db.CBMobileReplicationV3.SubprotocolString()}
		}
		dirName := rapid.SampledFrom([]string{"pushAndPull", "push", "pull", "pushAndPull"}).Draw(rt, "direction")
		p, err := vfC06Setup(t, proto)
		if err != nil {
			rec.Inconclusive()
			kit.InconclusiveLine("C06", "setup: %v", err)
			rt.Skip()
		}
		defer p.Close()
		p.direction = db.ActiveReplicatorDirection(dirName)
		source := map[string]string{"push": "A", "pull": "P"}[dirName] // "" for bidirectional

		var ops []string
		render := func() string {
			return fmt.Sprintf("protocol=%s direction=%s: %s", protoName, dirName, strings.Join(ops, "; "))
		}
		fail := func(format string, args ...any) {
			kit.Violation(rt, "C06", "ISGR", render(), format, args...)
		}
		infra := func(err error) {
			rec.Inconclusive()
			kit.InconclusiveLine("C06", "%v (case: %s)", err, render())
			rt.Skip()
		}
		// per-document bookkeeping for the oracle's scope and the non-trivial rule
		editedOn := map[string]map[string]bool{}       // doc -> sides that ever edited it
		sinceBarrier := map[string]map[string]string{} // doc -> side -> last op kind since the last barrier
		version := 0
		conflictCase, tombstoneRace := false, false
		poisoned := map[string]bool{}

		edit := func(side, id, kind string) {
			r := p.rt(side)
			st, err := vfC06Read(r, id)
			if err != nil {
				infra(err)
			}
			version++
			var resp *TestResponse
			switch kind {
			case "put":
				body := fmt.Sprintf(`{"v":%d,"by":%q,"channels":["ch"]}`, version, side)
				path := "/{{.keyspace}}/" + id
				if st.Exists && !st.Deleted {
					path += "?rev=" + st.Rev
				}
				resp = r.SendAdminRequest("PUT", path, body)
			case "delete":
				if !st.Exists || st.Deleted {
					ops = append(ops, fmt.Sprintf("%s:delete(%s)=noop", side, id))
					return
				}
				resp = r.SendAdminRequest("DELETE", "/{{.keyspace}}/"+id+"?rev="+st.Rev, "")
			}
			ops = append(ops, fmt.Sprintf("%s:%s(%s,v%d)=%d", side, kind, id, version, resp.Code))
			if resp.Code != 200 && resp.Code != 201 {
				// a local edit against the peer's own current revision must be accepted
				infra(fmt.Errorf("local %s on %s of %s answered %d %s", kind, side, id, resp.Code, resp.Body.String()))
			}
			if editedOn[id] == nil {
				editedOn[id] = map[string]bool{}
			}
			editedOn[id][side] = true
			if sinceBarrier[id] == nil {
				sinceBarrier[id] = map[string]string{}
			}
			sinceBarrier[id][side] = kind
			other := "A"
			if side == "A" {
				other = "P"
			}
			if k2, ok := sinceBarrier[id][other]; ok {
				conflictCase = true
				if (k2 == "delete") != (kind == "delete") {
					tombstoneRace = true
				}
			}
		}

		barrier := func() {
			if err := p.stopContinuous(); err != nil {
				infra(err)
			}
			for _, id := range p.bgRuns {
				if _, err := p.waitStopped(id); err != nil {
					infra(err)
				}
			}
			p.bgRuns = nil
			if err := p.waitCaughtUp(t); err != nil {
				infra(err)
			}
			const maxRuns = 6
			runs := 0
			for {
				id, err := p.startRepl(false)
				if err != nil {
					infra(err)
				}
				st, err := p.waitStopped(id)
				if err != nil {
					infra(err)
				}
				runs++
				if st.DocsWritten == 0 && st.DocsRead == 0 {
					break
				}
				if runs >= maxRuns {
					ops = append(ops, fmt.Sprintf("barrier: run %d still transferred written=%d read=%d", runs, st.DocsWritten, st.DocsRead))
					fail("replication does not reach a fix-point: one-shot run #%d after quiescence still transferred revisions (docs_written=%d docs_read=%d)", runs, st.DocsWritten, st.DocsRead)
				}
			}
			ops = append(ops, fmt.Sprintf("barrier(%d runs)", runs))
			rec.Class("barrier_runs", int64(runs))
			for _, id := range docIDs {
				sides := editedOn[id]
				if len(sides) == 0 {
					continue
				}
				if source != "" {
					// unidirectional: only documents that were only ever edited on the source side are in scope
					if len(sides) != 1 || !sides[source] {
						continue
					}
				}
				a, err := vfC06Read(p.active, id)
				if err != nil {
					infra(err)
				}
				b, err := vfC06Read(p.passive, id)
				if err != nil {
					infra(err)
				}
				rec.Class("agreement_checks", 1)
				if vfC06LostTombstone(a, b) || vfC06LostTombstone(b, a) || vfC06ResurrectedOnLostTombstone(a, b) || vfC06ResurrectedOnLostTombstone(b, a) {
					if kit.Known("C06", vfC06SigLostTombstone) {
						rec.Excluded(vfC06SigLostTombstone)
						ops = append(ops, "known-finding:"+vfC06SigLostTombstone+"("+id+")")
						poisoned[id] = true
						continue
					}
				}
				if poisoned[id] {
					// the document diverged earlier through a listed known finding; later symptoms on it are the same finding
					rec.Excluded(vfC06SigLostTombstone + "/later-symptom")
					continue
				}
				if protoName == "v4" && a.Exists && b.Exists && a.Deleted && b.Deleted && a.Rev == b.Rev && a.CV != b.CV && kit.Known("C06", vfC06SigTombstoneCV) {
					rec.Excluded(vfC06SigTombstoneCV)
					ops = append(ops, "known-finding:"+vfC06SigTombstoneCV+"("+id+")")
					continue
				}
				if a.Exists != b.Exists {
					fail("document %s exists on one peer only after catch-up: active=%+v passive=%+v", id, a, b)
				}
				if a.Deleted != b.Deleted {
					fail("document %s tombstone state differs after catch-up: active deleted=%v (rev %s cv %s) passive deleted=%v (rev %s cv %s)\nactive tree: %s | %s\npassive tree: %s | %s", id, a.Deleted, a.Rev, a.CV, b.Deleted, b.Rev, b.CV, a.Tree, a.HLV, b.Tree, b.HLV)
				}
				if protoName == "v3" && a.Rev != b.Rev {
					fail("document %s current revision differs after catch-up (legacy protocol): active %s passive %s\nactive tree: %s\npassive tree: %s", id, a.Rev, b.Rev, a.Tree, b.Tree)
				}
				if protoName == "v4" && a.CV != b.CV {
					fail("document %s current version differs after catch-up (version-vector protocol): active %s (rev %s deleted=%v) passive %s (rev %s deleted=%v)\nactive: %s | %s\npassive: %s | %s", id, a.CV, a.Rev, a.Deleted, b.CV, b.Rev, b.Deleted, a.Tree, a.HLV, b.Tree, b.HLV)
				}
				if !a.Deleted && !reflect.DeepEqual(vfC06StripBody(a.Body), vfC06StripBody(b.Body)) {
					fail("document %s body differs after catch-up: active %v passive %v", id, a.Body, b.Body)
				}
			}
			sinceBarrier = map[string]map[string]string{}
		}

		trace := func() {
			if os.Getenv("VERIF_C06_TRACE") == "" {
				return
			}
			for _, id := range docIDs {
				a, _ := vfC06Read(p.active, id)
				b, _ := vfC06Read(p.passive, id)
				if a.Exists || b.Exists {
					fmt.Printf("TRACE after %q\n  %s active : cur=%.8s del=%v %s | %s\n  %s passive: cur=%.8s del=%v %s | %s\n", ops[len(ops)-1:], id, a.Rev, a.Deleted, a.Tree, a.HLV, id, b.Rev, b.Deleted, b.Tree, b.HLV)
				}
			}
		}
		nSteps := rapid.IntRange(3, kit.Pick(14, 22)).Draw(rt, "steps")
		for i := 0; i < nSteps; i++ {
			if i > 0 {
				trace()
			}
			switch rapid.SampledFrom([]string{"edit", "edit", "edit", "edit", "delete", "delete", "oneshot", "oneshot-bg", "continuous-start", "continuous-stop", "barrier"}).Draw(rt, "action") {
			case "edit":
				edit(rapid.SampledFrom([]string{"A", "P"}).Draw(rt, "side"), rapid.SampledFrom(docPick).Draw(rt, "doc"), "put")
			case "delete":
				edit(rapid.SampledFrom([]string{"A", "P"}).Draw(rt, "side"), rapid.SampledFrom(docPick).Draw(rt, "doc"), "delete")
			case "oneshot":
				id, err := p.startRepl(false)
				if err != nil {
					infra(err)
				}
				st, err := p.waitStopped(id)
				if err != nil {
					infra(err)
				}
				ops = append(ops, fmt.Sprintf("oneshot(w=%d r=%d)", st.DocsWritten, st.DocsRead))
			case "oneshot-bg":
				id, err := p.startRepl(false)
				if err != nil {
					infra(err)
				}
				p.bgRuns = append(p.bgRuns, id)
				ops = append(ops, "oneshot-bg")
			case "continuous-start":
				if p.continuousID == "" {
					id, err := p.startRepl(true)
					if err != nil {
						infra(err)
					}
					p.continuousID = id
					ops = append(ops, "continuous-start")
				}
			case "continuous-stop":
				if p.continuousID != "" {
					if err := p.stopContinuous(); err != nil {
						infra(err)
					}
					ops = append(ops, "continuous-stop")
				}
			case "barrier":
				barrier()
			}
		}
		barrier()
		keys := make([]string, 0, len(editedOn))
		for k := range editedOn {
			keys = append(keys, k)
		}
		sort.Strings(keys)
		classes := []string{"protocol=" + protoName, "direction=" + dirName}
		if conflictCase {
			classes = append(classes, "conflicting-edits")
		}
		if tombstoneRace {
			classes = append(classes, "tombstone-vs-edit")
		}
		rec.Case(render(), conflictCase || tombstoneRace, classes...)
	})
	for _, sig := range []string{vfC06SigLostTombstone, vfC06SigTombstoneCV} {
		if kit.Known("C06", sig) {
			kit.KnownFinding("C06", sig, kit.KnownWhat("C06", sig))
		}
	}
}
