package rest

// C19 — reserved properties a client must not set are rejected (error status, document unchanged)
// on every write path. The must-reject table is taken from the validation the code documents:
//
//	db/validation.go validateNewBody      (every path: REST, BLIP, import): "_removed", "_purged", "_sync_*"
//	db/validation.go validateAPIDocUpdate (REST PUT/POST/_bulk_docs):        "_sync"
//	db/validation.go validateBlipBody     (BLIP rev):                        "_sync", "_id", "_rev", "_deleted", "_revisions"
//	db/validation.go validateImportBody   (import):                          "_id", "_rev", "_exp", "_revisions"
//
// Injected into package rest by the /verif driver; never part of /repo.

import (
	"fmt"
	"net/url"
	"strings"
	"testing"

	kit "github.com/couchbase/sync_gateway/verifkit"
	"pgregory.net/rapid"
)

var vfC19ReservedEverywhere = []string{"_removed", "_purged", "_sync_", "_sync_x", "_sync_cookies", "_sync_é"}

func vfC19ReservedFor(path string) []string {
	keys := append([]string{}, vfC19ReservedEverywhere...)
	switch {
	case path == "blip":
		keys = append(keys, "_sync", "_id", "_rev", "_deleted", "_revisions")
	case path == "import":
		keys = append(keys, "_id", "_rev", "_exp", "_revisions")
	default:
		keys = append(keys, "_sync")
	}
	return keys
}

func vfC19GenReservedValue(t *rapid.T) *vfC19Val {
	switch rapid.IntRange(0, 9).Draw(t, "rvkind") {
	case 0:
		return &vfC19Val{Kind: 't'}
	case 1:
		return &vfC19Val{Kind: 'f'}
	case 2:
		return &vfC19Val{Kind: 'z'}
	case 3:
		return vfC19Num(rapid.SampledFrom([]string{"0", "1", "4102444800", "1e400"}).Draw(t, "rvnum"))
	case 4:
		return vfC19Str(rapid.SampledFrom([]string{"", "x", "1-abc", "doc", "2100-01-01T00:00:00Z"}).Draw(t, "rvstr"))
	case 5:
		return vfC19Obj()
	case 6:
		return &vfC19Val{Kind: 'a'}
	case 7:
		return vfC19Obj().Set("start", vfC19Num("1")).Set("ids", &vfC19Val{Kind: 'a', Vals: []*vfC19Val{vfC19Str("abc")}})
	case 8:
		return vfC19Obj().Set("rev", vfC19Str("1-abc")).Set("sequence", vfC19Num("1"))
	}
	return vfC19GenValue(t, vfC19GenCfg{MaxDepth: 3}, 1)
}

// Signatures of listed findings (see /verif/findings.d/C19.json).
const (
	vfC19SigBlankObject  = "inject-into-whitespace-only-object-invalid-json"
	vfC19SigRemovedNull  = "reserved-_removed-null-accepted"
	vfC19SigBlipEscaped  = "blip-escaped-reserved-key-bypasses-raw-prefilter"
	vfC19SigImportPurged = "import-_purged-true-answers-200"
)

// TestVerif_C19_Reserved: a body holding a must-not-set reserved property (plus ordinary members)
// is answered with an error status on every write path, and the document is unchanged afterwards.
func TestVerif_C19_Reserved(t *testing.T) {
	rec := kit.New("C19", "Reserved")
	defer rec.Flush()
	envs := []*vfC19Blip{vfC19NewBlip(t, "Reserved", false), vfC19NewBlip(t, "Reserved", true)}
	defer func() {
		for _, b := range envs {
			b.Close()
		}
	}()
	knownRemovedNull := kit.Known("C19", vfC19SigRemovedNull)
	knownBlipEscaped := kit.Known("C19", vfC19SigBlipEscaped)
	knownImportPurged := kit.Known("C19", vfC19SigImportPurged)
	rapid.Check(t, func(rt *rapid.T) {
		defer vfC19Inconclusive(rt, rec)
		var ops []string
		b := envs[rapid.IntRange(0, 1).Draw(rt, "proto")]
		e := b.vfC19Env
		docID := e.newDocID(rt)
		c := &vfC19Checker{e: e, rt: rt, ops: &ops, docID: docID, paths: map[string]bool{}}
		path := rapid.SampledFrom([]string{"PUT", "POST", "bulk", "bulk-noedits", "PUT-noedits", "blip", "import"}).Draw(rt, "path")
		key := rapid.SampledFrom(vfC19ReservedFor(path)).Draw(rt, "key")
		val := vfC19GenReservedValue(rt)
		existing := path != "import" && path != "POST" && rapid.Bool().Draw(rt, "existing")
		body := vfC19GenBody(rt, vfC19GenCfg{MaxDepth: 3, NoHugeFloat: true})
		st := vfC19GenStyle(rt)
		classes := []string{"path=" + path, "key=" + key, "existing=" + fmt.Sprint(existing), "value-kind=" + string(val.Kind)}
		render := func() string { return strings.Join(ops, "; ") }
		kit.Guard(rt, "C19", "Reserved", render, func() {
			var base *vfC19Rev
			if existing {
				b0 := vfC19GenBody(rt, vfC19GenCfg{MaxDepth: 3, NoHugeFloat: true})
				res, text, _ := e.write("PUT", docID, b0, &vfC19Style{Compact: true}, "", "", nil, &ops)
				if res.Code != 201 || res.RevID == "" {
					c.fail("PUT of a valid body was not accepted: status %d %s", res.Code, vfC19Clip(res.Reason))
				}
				base = &vfC19Rev{RevID: res.RevID, Body: b0, Text: text, Path: "PUT"}
			}
			parent := ""
			if base != nil {
				parent = base.RevID
			}
			wire := vfC19WithExtras(body, key, val)
			// the textual form of this attempt (is the reserved key written with an escape?)
			accepted, status, detail, escaped := false, "", "", false
			switch path {
			case "blip":
				text, _ := vfC19Ser(wire, st)
				escaped = !strings.Contains(text, `"`+key+`"`)
				rev, history := "1-abc", ""
				if base != nil {
					rev, history = fmt.Sprintf("%d-abc", vfC19RevGen(base.RevID)+1), base.RevID
				}
				ops = append(ops, fmt.Sprintf("BLIP rev id=%q rev=%s history=%q body=%s", docID, rev, history, text))
				res := b.pushRev(docID, rev, history, []byte(text))
				accepted, status, detail = res.ErrCode == "", "Error-Code="+res.ErrCode, res.Body
			case "import":
				text, _ := vfC19Ser(wire, st)
				escaped = !strings.Contains(text, `"`+key+`"`)
				ops = append(ops, fmt.Sprintf("external SetRaw %q %s; GET (on-demand import)", docID, text))
				if err := e.rt.GetSingleDataStore().SetRaw(e.ctx, docID, 0, nil, []byte(text)); err != nil {
					panic(kit.InconclusiveErr{Msg: "SetRaw: " + err.Error()})
				}
				r := e.do("GET", vfC19Path(docID), "", nil)
				accepted, status, detail = r.Code >= 200 && r.Code < 300, fmt.Sprintf("status %d", r.Code), string(r.Body)
			default:
				// the REST paths add their own _id/_rev/_revisions; put the reserved member next to them
				res, text, _ := e.write(path, docID, wire, st, parent, fmt.Sprintf("%d-abc", vfC19RevGen(parent)+1), nil, &ops)
				escaped = !strings.Contains(text, `"`+key+`"`)
				accepted, status, detail = res.Code == 201, fmt.Sprintf("status %d", res.Code), res.Reason
				if !accepted && (res.Code < 400 || res.Code > 599) {
					c.fail("%s with reserved property %s=%s was answered with %s, neither accepted nor an error status: %s", path, key, vfC19Short(val), status, vfC19Clip(detail))
				}
			}
			if escaped {
				classes = append(classes, "reserved-key-escaped")
			}
			sig := ""
			switch {
			case key == "_removed" && val.Kind == 'z':
				sig = vfC19SigRemovedNull
			case path == "blip" && escaped && (key == "_sync" || key == "_id" || key == "_rev" || key == "_deleted" || key == "_revisions"):
				sig = vfC19SigBlipEscaped
			case path == "import" && key == "_purged" && val.Kind == 't':
				sig = vfC19SigImportPurged
			}
			if sig != "" && ((sig == vfC19SigRemovedNull && knownRemovedNull) || (sig == vfC19SigBlipEscaped && knownBlipEscaped) || (sig == vfC19SigImportPurged && knownImportPurged)) {
				rec.Excluded(sig)
				classes = append(classes, "excluded-known-finding")
				return
			}
			if accepted {
				c.fail("%s accepted a body with the must-not-set reserved property %s=%s (%s %s)", path, key, vfC19Short(val), status, vfC19Clip(detail))
			}
			// the document is unchanged
			if path == "import" {
				q := "/_all_docs?keys=" + vfC19QueryKeys(docID)
				ops = append(ops, "GET "+q)
				r := e.do("GET", q, "", nil)
				v := c.raw("_all_docs", r.Body)
				if r.Code != 200 || v.Get("rows") == nil {
					c.fail("_all_docs after the rejected import: status %d %s", r.Code, vfC19Clip(string(r.Body)))
				}
				for _, row := range v.Get("rows").Vals {
					if row.Get("value") != nil && row.Get("id") != nil && row.Get("id").Str == docID {
						c.fail("import of a body with reserved property %s was answered %s but the document is listed by _all_docs: %s", key, status, vfC19Clip(string(r.Body)))
					}
				}
				return
			}
			ops = append(ops, "GET "+vfC19Path(docID))
			r := e.do("GET", vfC19Path(docID), "", nil)
			if base == nil {
				if r.Code != 404 {
					c.fail("%s with reserved property %s was answered %s, but GET of the document answers %d: %s", path, key, status, r.Code, vfC19Clip(string(r.Body)))
				}
				return
			}
			if r.Code != 200 {
				c.fail("%s with reserved property %s was answered %s, but GET of the existing document now answers %d: %s", path, key, status, r.Code, vfC19Clip(string(r.Body)))
			}
			c.doc("GET after rejected write", c.raw("GET after rejected write", r.Body), base, false)
		})
		_ = knownImportPurged
		rec.Case(fmt.Sprintf("%s existing=%v reserved %s=%s escaped-style=%v body=%s", path, existing, key, vfC19Canon(val), !st.Compact, vfC19Canon(body)), true, classes...)
	})
	if knownRemovedNull {
		vfC19RegressRemovedNull(envs[0].vfC19Env)
	}
}

// vfC19RegressRemovedNull: minimal reproduction of "reserved-_removed-null-accepted".
func vfC19RegressRemovedNull(e *vfC19Env) {
	r := e.do("PUT", "/c19-regress-removed-null", `{"_removed":null,"a":1}`, nil)
	if r.Code == 201 {
		g := e.do("GET", "/c19-regress-removed-null", "", nil)
		kit.KnownFinding("C19", vfC19SigRemovedNull, fmt.Sprintf("PUT {\"_removed\":null,\"a\":1} answers 201 (validateNewBody documents rejection of a body containing _removed); GET then returns %s", strings.TrimSpace(vfC19Clip(string(g.Body)))))
	}
}

func vfC19QueryKeys(docID string) string {
	return url.QueryEscape(vfC19MustSer(&vfC19Val{Kind: 'a', Vals: []*vfC19Val{vfC19Str(docID)}}))
}

// vfC19BlankObjectShape: the body is an empty object, the path stores the client's bytes verbatim
// (import, BLIP) and the style puts whitespace between the braces.
func vfC19BlankObjectShape(path string, body *vfC19Val, st *vfC19Style) bool {
	if len(body.Keys) != 0 || !(path == "import" || path == "autoimport" || strings.HasPrefix(path, "blip")) {
		return false
	}
	probe := *st
	text, _ := vfC19SerDoc(body, &probe)
	return strings.TrimSpace(text) != "{}"
}
