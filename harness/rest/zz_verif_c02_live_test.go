package rest

// C02 — "live connection" family. A reader stays connected (a continuous BLIP pull with the
// repository's BlipTesterClient, or a continuous _changes feed with include_docs over a real HTTP
// connection) while an administrator changes the user's access: roles swapped for others (same or
// different count), role channels added/removed, user channels added/removed, roles deleted. After
// every change a *barrier* document is written into a channel the user certainly keeps and the harness
// waits until the connected reader has received it (bounded wait -> inconclusive, no sleeps decide);
// then a marker-carrying document is written into a channel the model says the user does not have
// (preferably one it has just lost) and another into a channel it has. Oracle: the second one arrives
// (converse; bounded wait -> inconclusive), and no message the reader ever receives afterwards contains
// the id or body marker of a document written into a channel the user did not have at that time
// and has not regained since (a regained channel legitimately back-fills its documents).

import (
	"bufio"
	"context"
	"fmt"
	"net/http"
	"net/http/httptest"
	"sort"
	"strings"
	"sync"
	"testing"
	"time"

	kit "github.com/couchbase/sync_gateway/verifkit"
	"pgregory.net/rapid"
)

type vfC02LiveReader interface {
	has(text string) bool
	problem() string
	Close()
}

// vfC02HTTPFeed is a continuous _changes feed read over a real connection.
type vfC02HTTPFeed struct {
	mu      sync.Mutex
	lines   []string
	trouble string
	cancel  context.CancelFunc
	srv     *httptest.Server
	done    chan struct{}
}

func (w *vfC02World) openHTTPFeed(user string) (*vfC02HTTPFeed, error) {
	f := &vfC02HTTPFeed{done: make(chan struct{})}
	f.srv = httptest.NewServer(w.rt.TestPublicHandler())
	ctx, cancel := context.WithCancel(context.Background())
	f.cancel = cancel
	req, err := http.NewRequestWithContext(ctx, "GET", f.srv.URL+"/"+w.ks+"/_changes?feed=continuous&include_docs=true&since=0", nil)
	if err != nil {
		f.Close()
		return nil, vfC02Infra{err.Error()}
	}
	req.SetBasicAuth(user, RestTesterDefaultUserPassword)
	resp, err := f.srv.Client().Do(req)
	if err != nil {
		f.Close()
		return nil, vfC02Infra{"continuous _changes: " + err.Error()}
	}
	if resp.StatusCode != 200 {
		_ = resp.Body.Close()
		f.Close()
		return nil, vfC02Infra{fmt.Sprintf("continuous _changes answered %d", resp.StatusCode)}
	}
	go func() {
		defer close(f.done)
		defer func() { _ = resp.Body.Close() }()
		rd := bufio.NewReaderSize(resp.Body, 1<<16)
		for {
			line, err := rd.ReadString('\n')
			if strings.TrimSpace(line) != "" {
				f.mu.Lock()
				f.lines = append(f.lines, line)
				f.mu.Unlock()
			}
			if err != nil {
				if ctx.Err() == nil {
					f.mu.Lock()
					f.trouble = "continuous _changes feed ended: " + err.Error()
					f.mu.Unlock()
				}
				return
			}
		}
	}()
	return f, nil
}

func (f *vfC02HTTPFeed) has(text string) bool {
	f.mu.Lock()
	defer f.mu.Unlock()
	for _, l := range f.lines {
		if strings.Contains(l, text) {
			return true
		}
	}
	return false
}

func (f *vfC02HTTPFeed) problem() string {
	f.mu.Lock()
	defer f.mu.Unlock()
	return f.trouble
}

func (f *vfC02HTTPFeed) Close() {
	defer func() { _ = recover() }()
	if f.cancel != nil {
		f.cancel()
	}
	if f.srv != nil {
		f.srv.CloseClientConnections()
		f.srv.Close()
	}
}

// vfC02Live is the access model of the live family: one user, three roles, channels A and B, plus the
// barrier channel K the user holds directly for the whole case.
type vfC02Live struct {
	w         *vfC02World
	roleChans map[string][]string // existing roles -> channels
	userRoles []string
	userChans []string // besides K
	nDoc      int
}

var vfC02LiveRoles = []string{"r1", "r2", "r3"}
var vfC02LiveChanSets = [][]string{{}, {"A"}, {"B"}, {"A", "B"}}

func (m *vfC02Live) eff() map[string]bool {
	e := map[string]bool{"K": true, "!": true}
	for _, c := range m.userChans {
		e[c] = true
	}
	for _, r := range m.userRoles {
		for _, c := range m.roleChans[r] { // a deleted role confers nothing
			e[c] = true
		}
	}
	return e
}

func vfC02SetString(e map[string]bool) string {
	var ks []string
	for k, v := range e {
		if v {
			ks = append(ks, k)
		}
	}
	sort.Strings(ks)
	return "[" + strings.Join(ks, ",") + "]"
}

func (m *vfC02Live) putRole(name string) error {
	w := m.w
	r := w.send("", "PUT", "/"+w.dbName+"/_role/"+name, GetRolePayload(w.t, "", w.rt.GetSingleDataStore(), m.roleChans[name]), nil)
	if r.Code != 200 && r.Code != 201 {
		return vfC02Infra{fmt.Sprintf("PUT role %s: %d %s", name, r.Code, r.Body)}
	}
	return nil
}

func (m *vfC02Live) putUser() error {
	w := m.w
	chans := append([]string{"K"}, m.userChans...)
	roles := m.userRoles
	if roles == nil {
		roles = []string{}
	}
	r := w.send("", "PUT", "/"+w.dbName+"/_user/uL", GetUserPayload(w.t, "", RestTesterDefaultUserPassword, "", w.rt.GetSingleDataStore(), chans, roles), nil)
	if r.Code != 200 && r.Code != 201 {
		return vfC02Infra{fmt.Sprintf("PUT user: %d %s", r.Code, r.Body)}
	}
	return nil
}

// writeDoc writes a new marker-carrying document into the channel and returns its id and body markers.
func (m *vfC02Live) writeDoc(kind, ch string) (idMarker, bodyMarker string, err error) {
	w := m.w
	m.nDoc++
	idMarker, bodyMarker = w.marker('i'), w.marker('b')
	id := fmt.Sprintf("%s%d-%s", kind, m.nDoc, idMarker)
	r := w.send("", "PUT", "/"+w.ks+"/"+id, fmt.Sprintf(`{"chan":[%q],"m":%q}`, ch, bodyMarker), nil)
	if r.Code != 201 {
		return "", "", vfC02Infra{fmt.Sprintf("write %s: %d %s", id, r.Code, r.Body)}
	}
	w.logf("write %s chan=%s", id, ch)
	return idMarker, bodyMarker, nil
}

func vfC02WaitHas(rd vfC02LiveReader, text, what string) error {
	deadline := time.Now().Add(vfC02WaitBound)
	for {
		if rd.has(text) {
			return nil
		}
		if p := rd.problem(); p != "" {
			return vfC02Infra{p}
		}
		if time.Now().After(deadline) {
			return kit.InconclusiveErr{Msg: fmt.Sprintf("%s did not reach the connected reader within %v", what, vfC02WaitBound)}
		}
		time.Sleep(time.Millisecond)
	}
}

func TestVerif_C02_Live(t *testing.T) {
	rec := kit.New("C02", "Live")
	defer rec.Flush()
	rapid.Check(t, func(rt *rapid.T) {
		w := &vfC02World{t: t, classes: map[string]bool{}}
		c := &vfC02Case{w: w, rec: rec, test: "Live", rt: rt}
		func() {
			defer func() {
				if r := recover(); r != nil {
					c.infra(vfC02Infra{fmt.Sprintf("setup panic: %v", r)})
				}
			}()
			cfg := &RestTesterConfig{SyncFn: vfC02SyncFn}
			if rapid.Bool().Draw(rt, "defaultCollection") {
				w.rt = NewRestTesterDefaultCollection(t, cfg)
				w.logf("collection=default")
			} else {
				w.rt = NewRestTester(t, cfg)
				w.logf("collection=named")
			}
			w.dbName = w.rt.GetDatabase().Name
			w.ks = w.rt.GetSingleKeyspace()
		}()
		defer w.Close()
		m := &vfC02Live{w: w, roleChans: map[string][]string{}}
		var rd vfC02LiveReader
		forbidden := [][3]string{} // (id marker, body marker, channel) of documents written into channels the user did not have and has not regained since
		classes := []string{}
		nontrivial := false
		nForbidden := 0
		kit.Guard(rt, "C02", "Live", w.render, func() {
			for _, r := range vfC02LiveRoles {
				m.roleChans[r] = rapid.SampledFrom(vfC02LiveChanSets).Draw(rt, "init-"+r)
				if err := m.putRole(r); err != nil {
					c.infra(err)
				}
			}
			for _, r := range vfC02LiveRoles {
				if rapid.Bool().Draw(rt, "hold-"+r) {
					m.userRoles = append(m.userRoles, r)
				}
			}
			m.userChans = rapid.SampledFrom([][]string{{}, {}, {"A"}, {"B"}}).Draw(rt, "init-userchans")
			if err := m.putUser(); err != nil {
				c.infra(err)
			}
			w.logf("roles=%v user roles=%v chans=%v", m.roleChans, m.userRoles, m.userChans)
			kind := rapid.SampledFrom([]string{"blip-v3", "blip-v4", "http-continuous"}).Draw(rt, "reader")
			w.logf("reader=%s", kind)
			classes = append(classes, "reader="+kind)
			u := &vfC02User{Name: "uL"}
			if kind == "http-continuous" {
				f, err := w.openHTTPFeed("uL")
				if err != nil {
					c.infra(err)
				}
				rd = f
			} else {
				s, err := w.openBlip(u, &vfC02BlipPlan{Proto: strings.TrimPrefix(kind, "blip-"), Known: map[string][]any{}})
				if err != nil {
					s.Close()
					c.infra(err)
				}
				rd = s
				func() {
					defer func() {
						if r := recover(); r != nil {
							s.Close()
							c.infra(vfC02Infra{fmt.Sprintf("subChanges: %v", r)})
						}
					}()
					s.btcc.StartPullSince(BlipTesterPullOptions{Continuous: true, Since: "0"})
				}()
			}
			defer rd.Close()
			barrier := func(why string) {
				_, bm, err := m.writeDoc("barrier", "K")
				if err == nil {
					err = vfC02WaitHas(rd, bm, "barrier document ("+why+")")
				}
				if err != nil {
					c.infra(err)
				}
			}
			check := func(when string) {
				for _, fm := range forbidden {
					for _, mk := range fm[:2] {
						if rd.has(mk) {
							c.fail("the connected reader (%s) received marker %s of a document written into a channel the user did not have at that time (%s)", kind, mk, when)
						}
					}
				}
			}
			barrier("connected")
			nSteps := rapid.IntRange(3, kit.Pick(7, 10)).Draw(rt, "steps")
			for i := 0; i < nSteps; i++ {
				before := m.eff()
				action := rapid.SampledFrom([]string{"user-roles", "user-roles", "user-roles", "role-chans", "role-chans", "role-chans", "user-chans", "role-delete"}).Draw(rt, "action")
				var err error
				switch action {
				case "user-roles":
					held := map[string]bool{}
					for _, r := range m.userRoles {
						held[r] = true
					}
					var unheld []string
					for _, r := range vfC02LiveRoles {
						if !held[r] {
							unheld = append(unheld, r)
						}
					}
					how := rapid.SampledFrom([]string{"swap", "swap", "add", "remove"}).Draw(rt, "how")
					switch {
					case how == "swap" && len(m.userRoles) > 0 && len(unheld) > 0:
						out := rapid.IntRange(0, len(m.userRoles)-1).Draw(rt, "out")
						in := unheld[rapid.IntRange(0, len(unheld)-1).Draw(rt, "in")]
						nr := append([]string{}, m.userRoles...)
						nr[out] = in
						m.userRoles = nr
						classes = append(classes, "change=role-swap-same-count")
					case how == "remove" && len(m.userRoles) > 0:
						out := rapid.IntRange(0, len(m.userRoles)-1).Draw(rt, "out")
						m.userRoles = append(append([]string{}, m.userRoles[:out]...), m.userRoles[out+1:]...)
						classes = append(classes, "change=role-removed")
					case len(unheld) > 0:
						m.userRoles = append(append([]string{}, m.userRoles...), unheld[rapid.IntRange(0, len(unheld)-1).Draw(rt, "in")])
						classes = append(classes, "change=role-added")
					}
					sort.Strings(m.userRoles)
					w.logf("PUT user roles=%v", m.userRoles)
					err = m.putUser()
				case "role-chans":
					r := rapid.SampledFrom(vfC02LiveRoles).Draw(rt, "role")
					m.roleChans[r] = rapid.SampledFrom(vfC02LiveChanSets).Draw(rt, "rolechans")
					w.logf("PUT role %s chans=%v", r, m.roleChans[r])
					classes = append(classes, "change=role-channels")
					err = m.putRole(r)
				case "user-chans":
					m.userChans = rapid.SampledFrom(vfC02LiveChanSets).Draw(rt, "userchans")
					w.logf("PUT user chans=%v", m.userChans)
					classes = append(classes, "change=user-channels")
					err = m.putUser()
				case "role-delete":
					r := rapid.SampledFrom(vfC02LiveRoles).Draw(rt, "role")
					if _, exists := m.roleChans[r]; !exists {
						continue
					}
					resp := w.send("", "DELETE", "/"+w.dbName+"/_role/"+r, "", nil)
					if resp.Code != 200 {
						err = vfC02Infra{fmt.Sprintf("DELETE role %s: %d %s", r, resp.Code, resp.Body)}
					}
					delete(m.roleChans, r)
					w.logf("DELETE role %s", r)
					classes = append(classes, "change=role-delete")
				}
				if err != nil {
					c.infra(err)
				}
				after := m.eff()
				w.logf("effective %s -> %s", vfC02SetString(before), vfC02SetString(after))
				// a channel the user holds again makes the documents in it legitimately readable (back-fill)
				kept := forbidden[:0:0]
				for _, fm := range forbidden {
					if !after[fm[2]] {
						kept = append(kept, fm)
					}
				}
				forbidden = kept
				barrier(action)
				check("after the barrier following " + action)
				// a document into a channel the user does not have — one it has just lost when there is one
				var lost, lacking []string
				for _, ch := range []string{"A", "B"} {
					if !after[ch] {
						lacking = append(lacking, ch)
						if before[ch] {
							lost = append(lost, ch)
						}
					}
				}
				if len(lost) > 0 {
					lacking = lost
					nontrivial = true
					classes = append(classes, "probe=just-revoked")
					rec.Class("revocation-probes:"+action, 1)
				}
				if len(lacking) > 0 {
					ch := lacking[rapid.IntRange(0, len(lacking)-1).Draw(rt, "lackingChan")]
					im, bm, err := m.writeDoc("secret", ch)
					if err != nil {
						c.infra(err)
					}
					forbidden = append(forbidden, [3]string{im, bm, ch})
					nForbidden++
				}
				// converse: a document into a channel the user has (newly, when there is one) arrives
				var have, gained []string
				for _, ch := range []string{"A", "B"} {
					if after[ch] {
						have = append(have, ch)
						if !before[ch] {
							gained = append(gained, ch)
						}
					}
				}
				if len(gained) > 0 {
					have = gained
					classes = append(classes, "probe=just-granted")
				}
				if len(have) > 0 {
					ch := have[rapid.IntRange(0, len(have)-1).Draw(rt, "haveChan")]
					_, bm, err := m.writeDoc("open", ch)
					if err == nil {
						err = vfC02WaitHas(rd, bm, fmt.Sprintf("document written into channel %s, which the user has (%s)", ch, vfC02SetString(after)))
					}
					if err != nil {
						c.infra(err)
					}
					rec.Class("converse-arrivals", 1)
				}
				check("after the probe following " + action)
			}
			barrier("final 1")
			barrier("final 2")
			check("at the end")
		})
		rec.Class("forbidden-documents", int64(nForbidden))
		c.classes = classes
		rec.Case(w.render(), nontrivial, vfC02CaseClasses(c)...)
	})
}
