package rest

// C06, checkpointed family: ONE persistent replication that is run, stopped and re-run from its own
// checkpoint ("replication restarted at arbitrary points"), while the active peer transiently
// rejects incoming writes (the product's reject_writes_with_skipped_sequences option while the cache
// reports skipped sequences — emulated by toggling DatabaseContext.BroadcastSlowMode, the flag the
// change cache sets when it has skipped sequences). A revision that could not be stored must not be
// counted as handled: after the condition clears, re-running the SAME replication (from its
// checkpoint) until a run transfers nothing must leave both peers in agreement. The barrier never
// uses a fresh replication id here — a from-scratch run would hide a checkpoint that ran ahead.

import (
	"encoding/json"
	"fmt"
	"reflect"
	"strings"
	"testing"

	"github.com/couchbase/sync_gateway/base"
	"github.com/couchbase/sync_gateway/channels"
	"github.com/couchbase/sync_gateway/db"
	kit "github.com/couchbase/sync_gateway/verifkit"
	"pgregory.net/rapid"
)

const vfC06SigPushTransient = "isgr-push-transient-rejection-advances-checkpoint"

// vfC06ReproPushTransient is the plain reproduction of the listed finding: a pushed revision that the
// passive peer answers with a transient 503 is still reported to the checkpointer as processed.
func vfC06ReproPushTransient(t *testing.T) (reproduced bool, detail string) {
	p, err := vfC06SetupWith(t, []string{db.CBMobileReplicationV4.SubprotocolString()}, &db.UnsupportedOptions{RejectWritesWithSkippedSequences: true})
	if err != nil {
		return false, "setup: " + err.Error()
	}
	defer p.Close()
	p.direction = db.ActiveReplicatorTypePush
	if resp := p.active.SendAdminRequest("PUT", "/{{.keyspace}}/d0", `{"v":1,"channels":["ch"]}`); resp.Code != 201 {
		return false, fmt.Sprintf("put: %d", resp.Code)
	}
	if err := p.waitCaughtUp(t); err != nil {
		return false, err.Error()
	}
	p.passive.GetDatabase().BroadcastSlowMode.Store(true)
	cfg := &db.ReplicationConfig{ID: "cp1", Direction: p.direction, Remote: p.remote, ConflictResolutionType: db.ConflictResolverDefault, CollectionsEnabled: base.TestsUseNamedCollections()}
	payload, _ := json.Marshal(cfg)
	if resp := p.active.SendAdminRequest("POST", "/{{.db}}/_replication/", string(payload)); resp.Code != 201 {
		return false, fmt.Sprintf("create: %d", resp.Code)
	}
	st, err := p.waitStopped("cp1")
	if err != nil {
		return false, err.Error()
	}
	p.passive.GetDatabase().BroadcastSlowMode.Store(false)
	for i := 0; i < 2; i++ {
		if resp := p.active.SendAdminRequest("PUT", "/{{.db}}/_replicationStatus/cp1?action=start", ""); resp.Code != 200 {
			return false, fmt.Sprintf("restart: %d", resp.Code)
		}
		if _, err := p.waitStopped("cp1"); err != nil {
			return false, err.Error()
		}
	}
	b, err := vfC06Read(p.passive, "d0")
	if err != nil {
		return false, err.Error()
	}
	return !b.Exists, fmt.Sprintf("A:put(d0); passive answers 503 to the pushed rev (doc_write_failures=%d); condition clears; two re-runs from the checkpoint: passive has d0 = %v", st.DocWriteFailures, b.Exists)
}

func TestVerif_C06_Checkpointed(t *testing.T) {
	rec := kit.New("C06", "Checkpointed")
	defer rec.Flush()
	pushKnown := kit.Known("C06", vfC06SigPushTransient)
	if pushKnown {
		if ok, detail := vfC06ReproPushTransient(t); ok {
			kit.KnownFinding("C06", vfC06SigPushTransient, detail)
		} else {
			kit.Note("C06", "listed finding %s did not reproduce: %s", vfC06SigPushTransient, detail)
		}
	}
	docIDs := []string{"d0", "d1", "d2", "d3"}
	rapid.Check(t, func(rt *rapid.T) {
		protoName := rapid.SampledFrom([]string{"v4", "v3"}).Draw(rt, "protocol")
		proto := []string{db.CBMobileReplicationV4.SubprotocolString()}
		if protoName == "v3" {
			proto = []string{db.CBMobileReplicationV3.SubprotocolString()}
		}
		dirName := rapid.SampledFrom([]string{"pull", "push", "pull"}).Draw(rt, "direction")
		p, err := vfC06SetupWith(t, proto, &db.UnsupportedOptions{RejectWritesWithSkippedSequences: true})
		if err != nil {
			rec.Inconclusive()
			kit.InconclusiveLine("C06", "setup: %v", err)
			rt.Skip()
		}
		defer p.Close()
		p.direction = db.ActiveReplicatorDirection(dirName)
		source := map[string]*RestTester{"push": p.active, "pull": p.passive}[dirName]
		sourceName := map[string]string{"push": "A", "pull": "P"}[dirName]

		var ops []string
		render := func() string {
			return fmt.Sprintf("checkpointed protocol=%s direction=%s: %s", protoName, dirName, strings.Join(ops, "; "))
		}
		fail := func(format string, args ...any) {
			kit.Violation(rt, "C06", "Checkpointed", render(), format, args...)
		}
		infra := func(err error) {
			rec.Inconclusive()
			kit.InconclusiveLine("C06", "%v (case: %s)", err, render())
			rt.Skip()
		}
		const replID = "cp1"
		created := false
		rejecting := false
		sawRejection := false
		restartedAfterRejection := false
		version := 0
		edited := map[string]bool{}

		// run starts (or re-starts from its checkpoint) the persistent one-shot replication and waits for it to stop
		run := func() db.ReplicationStatus {
			if !created {
				cfg := &db.ReplicationConfig{ID: replID, Direction: p.direction, Remote: p.remote, Continuous: false,
					ConflictResolutionType: db.ConflictResolverDefault, CollectionsEnabled: base.TestsUseNamedCollections()}
				payload, _ := json.Marshal(cfg)
				resp := p.active.SendAdminRequest("POST", "/{{.db}}/_replication/", string(payload))
				if resp.Code != 201 {
					infra(fmt.Errorf("create replication: %d %s", resp.Code, resp.Body.String()))
				}
				created = true
			} else {
				resp := p.active.SendAdminRequest("PUT", "/{{.db}}/_replicationStatus/"+replID+"?action=start", "")
				if resp.Code != 200 {
					infra(fmt.Errorf("restart replication: %d %s", resp.Code, resp.Body.String()))
				}
			}
			st, err := p.waitStopped(replID)
			if err != nil {
				infra(err)
			}
			return st
		}
		setRejecting := func(on bool) {
			// the passive peer of a push is the one receiving writes; for a pull it is the active peer
			target := p.active
			if dirName == "push" {
				target = p.passive
			}
			target.GetDatabase().BroadcastSlowMode.Store(on)
			rejecting = on
		}

		nSteps := rapid.IntRange(4, 14).Draw(rt, "steps")
		for i := 0; i < nSteps; i++ {
			switch rapid.SampledFrom([]string{"edit", "edit", "edit", "delete", "run", "run", "reject-on", "reject-off"}).Draw(rt, "action") {
			case "edit", "delete":
				// edits happen on the source side only: the family is about transport/checkpointing, not conflicts
				id := rapid.SampledFrom(docIDs).Draw(rt, "doc")
				st, err := vfC06Read(source, id)
				if err != nil {
					infra(err)
				}
				version++
				var resp *TestResponse
				if rapid.IntRange(0, 4).Draw(rt, "del") == 0 && st.Exists && !st.Deleted {
					resp = source.SendAdminRequest("DELETE", "/{{.keyspace}}/"+id+"?rev="+st.Rev, "")
					ops = append(ops, fmt.Sprintf("%s:delete(%s)=%d", sourceName, id, resp.Code))
				} else {
					path := "/{{.keyspace}}/" + id
					if st.Exists && !st.Deleted {
						path += "?rev=" + st.Rev
					}
					resp = source.SendAdminRequest("PUT", path, fmt.Sprintf(`{"v":%d,"channels":["ch"]}`, version))
					ops = append(ops, fmt.Sprintf("%s:put(%s,v%d)=%d", sourceName, id, version, resp.Code))
				}
				if resp.Code != 200 && resp.Code != 201 {
					infra(fmt.Errorf("local edit answered %d %s", resp.Code, resp.Body.String()))
				}
				edited[id] = true
			case "run":
				if err := p.waitCaughtUp(t); err != nil {
					infra(err)
				}
				st := run()
				ops = append(ops, fmt.Sprintf("run(read=%d written=%d rejected_local=%d rejected_remote=%d failures=%d)", st.DocsRead, st.DocsWritten, st.RejectedLocal, st.RejectedRemote, st.DocWriteFailures))
				if rejecting && (st.RejectedLocal > 0 || st.RejectedRemote > 0 || st.DocWriteFailures > 0) {
					sawRejection = true
				} else if sawRejection {
					restartedAfterRejection = true
				}
			case "reject-on":
				if dirName == "push" && pushKnown {
					// listed known finding: a transiently rejected PUSH is counted as processed; keep it out by construction
					rec.Excluded(vfC06SigPushTransient)
					break
				}
				if !rejecting {
					setRejecting(true)
					ops = append(ops, "receiver-rejects-writes")
				}
			case "reject-off":
				if rejecting {
					setRejecting(false)
					ops = append(ops, "receiver-accepts-writes")
				}
			}
		}
		// barrier: condition cleared, re-run the same replication from its checkpoint until a run changes nothing
		if rejecting {
			setRejecting(false)
			ops = append(ops, "receiver-accepts-writes")
		}
		if err := p.waitCaughtUp(t); err != nil {
			infra(err)
		}
		prev := db.ReplicationStatus{}
		have := false
		runs := 0
		for {
			st := run()
			runs++
			if have && st.DocsRead == prev.DocsRead && st.DocsWritten == prev.DocsWritten {
				break
			}
			if runs >= 7 {
				fail("re-running the caught-up replication keeps transferring: run #%d read=%d written=%d (previous read=%d written=%d)", runs, st.DocsRead, st.DocsWritten, prev.DocsRead, prev.DocsWritten)
			}
			prev, have = st, true
		}
		if sawRejection {
			restartedAfterRejection = true
		}
		ops = append(ops, fmt.Sprintf("barrier(%d runs from checkpoint)", runs))
		for _, id := range docIDs {
			if !edited[id] {
				continue
			}
			a, err := vfC06Read(p.active, id)
			if err != nil {
				infra(err)
			}
			b, err := vfC06Read(p.passive, id)
			if err != nil {
				infra(err)
			}
			rec.Class("agreement_checks", 1)
			if a.Exists != b.Exists {
				fail("document %s exists on one peer only after the replication caught up from its checkpoint: active=%v (rev %s) passive=%v (rev %s)", id, a.Exists, a.Rev, b.Exists, b.Rev)
			}
			if a.Deleted != b.Deleted {
				fail("document %s tombstone state differs after catch-up: active deleted=%v (rev %s) passive deleted=%v (rev %s)", id, a.Deleted, a.Rev, b.Deleted, b.Rev)
			}
			if protoName == "v3" && a.Rev != b.Rev {
				fail("document %s current revision differs after catch-up: active %s passive %s", id, a.Rev, b.Rev)
			}
			if protoName == "v4" && a.CV != b.CV {
				fail("document %s current version differs after catch-up: active %s passive %s", id, a.CV, b.CV)
			}
			if !a.Deleted && !reflect.DeepEqual(vfC06StripBody(a.Body), vfC06StripBody(b.Body)) {
				fail("document %s body differs after catch-up: active %v passive %v", id, a.Body, b.Body)
			}
		}
		classes := []string{"protocol=" + protoName, "direction=" + dirName}
		if sawRejection {
			classes = append(classes, "run-with-rejected-revisions")
		}
		// non-trivial: a run met rejected revisions and the same replication was later re-run from its checkpoint
		rec.Case(render(), sawRejection && restartedAfterRejection, classes...)
	})
}

// vfC06SetupWith is vfC06Setup with unsupported options on both peers.
func vfC06SetupWith(t *testing.T, proto []string, unsupported *db.UnsupportedOptions) (p *vfC06Peers, err error) {
	p, err = vfC06SetupOpts(t, proto, unsupported)
	return p, err
}

var _ = channels.DocChannelsSyncFunction
