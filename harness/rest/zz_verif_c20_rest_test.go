package rest

// C20 (REST clause): a malformed `since` token is answered with a client error, a valid one with 200.

import (
	"fmt"
	"net/url"
	"regexp"
	"strings"
	"testing"

	kit "github.com/couchbase/sync_gateway/verifkit"
	"pgregory.net/rapid"
)

var vfC20RestValid = regexp.MustCompile(`^(?:[0-9]{1,19}|[0-9]{1,19}:[0-9]{1,19}|[0-9]{1,19}:[0-9]{0,19}:[0-9]{1,19})?$`)

func TestVerif_C20_RestSince(t *testing.T) {
	rec := kit.New("C20", "RestSince")
	defer rec.Flush()
	rt := NewRestTester(t, nil)
	defer rt.Close()
	_ = rt.GetDatabase()
	pieces := []string{"", "0", "1", "12", "a", "-1", "+1", "1e3", " 1", "1.5", "18446744073709551616", "x y"}
	rapid.Check(t, func(t *rapid.T) {
		n := rapid.IntRange(1, 4).Draw(t, "parts")
		parts := make([]string, n)
		for i := range parts {
			parts[i] = rapid.SampledFrom(pieces).Draw(t, "piece")
		}
		since := strings.Join(parts, ":")
		post := rapid.Bool().Draw(t, "post")
		render := fmt.Sprintf("since=%q post=%v", since, post)
		var status int
		if post {
			resp := rt.SendAdminRequest("POST", "/{{.keyspace}}/_changes", fmt.Sprintf(`{"since":%q}`, since))
			status = resp.Code
		} else {
			resp := rt.SendAdminRequest("GET", "/{{.keyspace}}/_changes?since="+url.QueryEscape(since), "")
			status = resp.Code
		}
		valid := vfC20RestValid.MatchString(since)
		if valid && status != 200 {
			kit.Violation(t, "C20", "RestSince", render, "valid since token answered with %d", status)
		}
		if !valid && (status < 400 || status > 499) {
			kit.Violation(t, "C20", "RestSince", render, "malformed since token answered with status %d, not a client error", status)
		}
		rec.Case(render, strings.Contains(since, ":"), fmt.Sprintf("valid=%v", valid))
	})
}
