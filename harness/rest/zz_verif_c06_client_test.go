package rest

// C06 — replicating peers converge, family 2: one gateway (RestTester) and one replicating client.
//
// The client is the repository's BlipTesterClient (a test double of Couchbase Lite) used as a document
// store plus pull-side message handlers. Everything that decides is in this file:
//   * pull: subChanges is sent by the harness; the client's `changes` / `rev` / `norev` handlers are
//     wrapped to count what the client asked for and what arrived (completion of a one-shot pull is
//     logical: the feed's terminating empty `changes` message has been handled, every earlier
//     gateway->client request has been handled, and every requested revision has arrived);
//   * push: proposeChanges + rev are sent by the harness (the client's own serialisation of its
//     unpushed revision is used), so every answer is seen and nothing asserts;
//   * every assertion of the test double (require.* on its testing.TB) is turned into INCONCLUSIVE by
//     handing the RestTester a TB wrapper: on the harness goroutine it panics with
//     kit.InconclusiveErr, on handler goroutines it ends the goroutine and records the message.
//
// Client policy (stated in checks.d/C06.json): conflict-free mode; a client revision whose parent is not
// the gateway's current revision is rejected with 409; the client abandons that local branch and adopts
// the gateway's revision at the next pull. For the version-vector client this is obtained by running
// the client's hybrid logical clock one hour behind the gateway's, so that the test double's
// last-write-wins resolution always picks the pulled revision (its "local wins" branch does not build a
// merge version the gateway could accept). A pulled revision that is not newer than the last gateway
// revision the client already holds is acknowledged and ignored (the test double itself has no ordering
// check for rev-tree clients and asserts for version-vector clients; `rev` messages of two changes
// batches are handled concurrently).

import (
	"bytes"
	"encoding/json"
	"fmt"
	"hash/fnv"
	"os"
	"reflect"
	"runtime"
	"strconv"
	"strings"
	"sync"
	"sync/atomic"
	"testing"
	"time"

	"github.com/couchbase/go-blip"
	"github.com/couchbase/sync_gateway/base"
	"github.com/couchbase/sync_gateway/channels"
	"github.com/couchbase/sync_gateway/db"
	kit "github.com/couchbase/sync_gateway/verifkit"
	"pgregory.net/rapid"
)

const vfC06CWaitBound = 60 * time.Second

var (
	vfC06CTrace     = os.Getenv("VERIF_C06_TRACE") != ""
	vfC06CTraceStep func()
)

func vfC06GID() uint64 {
	var buf [64]byte
	n := runtime.Stack(buf[:], false)
	f := strings.Fields(string(buf[:n]))
	if len(f) < 2 {
		return 0
	}
	id, _ := strconv.ParseUint(f[1], 10, 64)
	return id
}

func vfC06Clip(s string) string {
	s = strings.Join(strings.Fields(s), " ")
	if len(s) > 400 {
		s = s[:400] + "…"
	}
	return s
}

// vfC06CTB is the testing.TB handed to the RestTester and, through it, to the BlipTesterClient. A failed
// assertion of the repository's helpers never fails the outer test: on the harness goroutine it
// becomes a kit.InconclusiveErr panic, elsewhere the goroutine is ended (as FailNow would) and the
// message is kept for the harness to report the case as inconclusive.
type vfC06CTB struct {
	testing.TB
	mu   sync.Mutex
	main uint64
	last string
	bg   []string
}

func (f *vfC06CTB) Helper()      {}
func (f *vfC06CTB) Failed() bool { return false }
func (f *vfC06CTB) fail(msg string, now bool) {
	onMain := vfC06GID() == f.main
	f.mu.Lock()
	if msg != "" {
		f.last = msg
		if !onMain {
			f.bg = append(f.bg, vfC06Clip(msg))
		}
	} else if now && !onMain && len(f.bg) == 0 {
		f.bg = append(f.bg, "FailNow on a background goroutine")
	}
	last := f.last
	f.mu.Unlock()
	if !now {
		return
	}
	if onMain {
		panic(kit.InconclusiveErr{Msg: "test-double/helper assertion: " + vfC06Clip(last)})
	}
	runtime.Goexit()
}
func (f *vfC06CTB) Errorf(format string, args ...any) { f.fail(fmt.Sprintf(format, args...), false) }
func (f *vfC06CTB) Error(args ...any)                 { f.fail(fmt.Sprint(args...), false) }
func (f *vfC06CTB) Fail()                             { f.fail("Fail()", false) }
func (f *vfC06CTB) FailNow()                          { f.fail("", true) }
func (f *vfC06CTB) Fatalf(format string, args ...any) { f.fail(fmt.Sprintf(format, args...), true) }
func (f *vfC06CTB) Fatal(args ...any)                 { f.fail(fmt.Sprint(args...), true) }
func (f *vfC06CTB) trouble() string {
	f.mu.Lock()
	defer f.mu.Unlock()
	return strings.Join(f.bg, " | ")
}

// vfC06Try runs f and converts an InconclusiveErr panic (TB wrapper on the harness goroutine) into an error.
func vfC06Try(f func()) (err error) {
	defer func() {
		if r := recover(); r != nil {
			if ie, ok := r.(kit.InconclusiveErr); ok {
				err = ie
				return
			}
			panic(r)
		}
	}()
	f()
	return nil
}

type vfC06CEnv struct {
	tb     *vfC06CTB
	rt     *RestTester
	client *BlipTesterClient
	btcc   *BlipTesterCollectionClient
	v4     bool

	revMu sync.Mutex // serialises the stale check and the client's rev handler

	mu           sync.Mutex
	done         map[blip.MessageNumber]bool // gateway->client requests on the pull connection that have been handled
	nulls        []blip.MessageNumber        // serial numbers of the empty (caught-up / end-of-feed) changes messages
	requested    int                         // revisions the client asked for in its changes responses
	received     int                         // rev + norev messages handled
	stored       int
	stale        int
	norevs       int
	tombsPulled  int
	abandoned    int // a pulled revision replaced an unpushed local revision
	contNulls    int // len(nulls) when the running continuous pull was started
	continuous   bool
	everContinue bool
}

type vfC06CDoc struct {
	Exists   bool // the client holds a revision with a body (or a tombstone)
	NoRev    bool
	Deleted  bool
	Version  DocVersion // version of the latest revision
	Base     DocVersion // last version known to be on the gateway
	Unpushed bool
	Body     []byte
	HLV      string
}

func (d vfC06CDoc) id(v4 bool) string {
	if v4 {
		return d.Version.CV.String()
	}
	return d.Version.RevTreeID
}

// readClient reads the client's state of one document under the client's lock.
func (e *vfC06CEnv) readClient(docID string) vfC06CDoc {
	e.btcc.seqLock.RLock()
	defer e.btcc.seqLock.RUnlock()
	seq, ok := e.btcc._seqFromDocID[docID]
	if !ok {
		return vfC06CDoc{}
	}
	doc := e.btcc._seqStore[seq]
	if doc == nil {
		return vfC06CDoc{}
	}
	latest, ok := doc._revisionsBySeq[doc._latestSeq]
	if !ok {
		return vfC06CDoc{}
	}
	st := vfC06CDoc{Exists: !latest.noRev, NoRev: latest.noRev, Deleted: latest.isDelete, Version: latest.version, Base: doc._latestServerVersion,
		Body: latest.body, Unpushed: !latest.noRev && latest.version != doc._latestServerVersion}
	st.HLV = fmt.Sprintf("cv=%s pv=%v mv=%v", latest.HLV.GetCurrentVersionString(), latest.HLV.PreviousVersions, latest.HLV.MergeVersions)
	return st
}

// unpushedEntry returns the client's own propose-changes entry and the body of its latest revision
// when that revision has not been accepted by (or received from) the gateway.
func (e *vfC06CEnv) unpushedEntry(docID string) (entry *proposeChangeBatchEntry, body []byte, ok bool) {
	e.btcc.seqLock.RLock()
	defer e.btcc.seqLock.RUnlock()
	seq, found := e.btcc._seqFromDocID[docID]
	if !found {
		return nil, nil, false
	}
	doc := e.btcc._seqStore[seq]
	if doc == nil {
		return nil, nil, false
	}
	latest, found := doc._revisionsBySeq[doc._latestSeq]
	if !found || latest.noRev || latest.version == doc._latestServerVersion {
		return nil, nil, false
	}
	return doc._proposeChangesEntryForDoc(), latest.body, true
}

// markPushed records that the gateway holds the version (unless the document has moved on meanwhile).
func (e *vfC06CEnv) markPushed(docID string, version DocVersion, msg *blip.Message) {
	e.btcc.seqLock.Lock()
	defer e.btcc.seqLock.Unlock()
	seq, found := e.btcc._seqFromDocID[docID]
	if !found {
		return
	}
	doc := e.btcc._seqStore[seq]
	if doc == nil {
		return
	}
	latest, found := doc._revisionsBySeq[doc._latestSeq]
	if !found || latest.version != version {
		return
	}
	doc._latestServerVersion = version
	latest.pushMessage = msg
	doc._revisionsBySeq[doc._latestSeq] = latest
}

func vfC06RevGen(revID string) int {
	g, _, _ := strings.Cut(revID, "-")
	n, _ := strconv.Atoi(g)
	return n
}

// staleRev: the pulled revision is not newer than the last gateway revision the client already holds.
func (e *vfC06CEnv) staleRev(docID, revID string) bool {
	e.btcc.seqLock.RLock()
	defer e.btcc.seqLock.RUnlock()
	seq, found := e.btcc._seqFromDocID[docID]
	if !found {
		return false
	}
	doc := e.btcc._seqStore[seq]
	if doc == nil {
		return false
	}
	latest, found := doc._revisionsBySeq[doc._latestSeq]
	if !found {
		return false
	}
	if e.v4 && !base.IsRevTreeID(revID) {
		v, err := db.ParseVersion(revID)
		if err != nil {
			return false
		}
		return latest.HLV.DominatesSource(v)
	}
	known := doc._latestServerVersion.RevTreeID
	if known == "" {
		return false
	}
	return revID == known || vfC06RevGen(revID) < vfC06RevGen(known)
}

func (e *vfC06CEnv) installHandlers() {
	bc := e.client.pullReplication.bt.blipContext
	origChanges := bc.HandlerForProfile[db.MessageChanges]
	origRev := bc.HandlerForProfile[db.MessageRev]
	origNoRev := bc.HandlerForProfile[db.MessageNoRev]
	finish := func(msg *blip.Message, f func()) {
		e.mu.Lock()
		if f != nil {
			f()
		}
		e.done[msg.SerialNumber()] = true
		e.mu.Unlock()
	}
	bc.HandlerForProfile[db.MessageChanges] = func(msg *blip.Message) {
		handled := false
		defer func() {
			if !handled { // the client's handler ended the goroutine (assertion): still account for the message
				finish(msg, nil)
			}
		}()
		body, _ := msg.Body()
		origChanges(msg)
		if msg.NoReply() || len(bytes.TrimSpace(body)) == 0 || string(bytes.TrimSpace(body)) == "null" {
			handled = true
			finish(msg, func() { e.nulls = append(e.nulls, msg.SerialNumber()) })
			return
		}
		n := 0
		if resp := msg.Response(); resp != nil {
			rb, _ := resp.Body()
			var answer []any
			if json.Unmarshal(rb, &answer) == nil {
				for _, a := range answer {
					if _, ok := a.([]any); ok {
						n++
					}
				}
			}
		}
		handled = true
		finish(msg, func() { e.requested += n })
	}
	bc.HandlerForProfile[db.MessageRev] = func(msg *blip.Message) {
		handled := false
		defer func() {
			if !handled {
				finish(msg, func() { e.received++ })
			}
		}()
		docID, revID := msg.Properties[db.RevMessageID], msg.Properties[db.RevMessageRev]
		e.revMu.Lock()
		defer e.revMu.Unlock()
		if e.staleRev(docID, revID) {
			_, _ = msg.Body()
			if !msg.NoReply() {
				msg.Response().SetBody([]byte(`[]`))
			}
			handled = true
			finish(msg, func() { e.received++; e.stale++ })
			return
		}
		replaced := e.readClient(docID).Unpushed
		origRev(msg)
		handled = true
		finish(msg, func() {
			e.received++
			e.stored++
			if msg.Properties[db.RevMessageDeleted] == "1" {
				e.tombsPulled++
			}
			if replaced {
				e.abandoned++
			}
		})
	}
	bc.HandlerForProfile[db.MessageNoRev] = func(msg *blip.Message) {
		handled := false
		defer func() {
			if !handled {
				finish(msg, func() { e.received++ })
			}
		}()
		e.revMu.Lock()
		defer e.revMu.Unlock()
		if e.staleRev(msg.Properties[db.NorevMessageId], msg.Properties[db.NorevMessageRev]) {
			// "that old revision is no longer available" for a revision the client has already moved past
			handled = true
			finish(msg, func() { e.received++; e.norevs++; e.stale++ })
			return
		}
		origNoRev(msg)
		handled = true
		finish(msg, func() { e.received++; e.norevs++ })
	}
}

func vfC06CSetup(t *testing.T, v4 bool) (e *vfC06CEnv, err error) {
	return vfC06CSetupLeaky(t, v4, nil)
}

func vfC06CSetupLeaky(t *testing.T, v4 bool, leaky *base.LeakyBucketConfig) (e *vfC06CEnv, err error) {
	tb := &vfC06CTB{TB: t, main: vfC06GID()}
	e = &vfC06CEnv{tb: tb, v4: v4, done: map[blip.MessageNumber]bool{}}
	defer func() {
		if r := recover(); r != nil {
			err = fmt.Errorf("setup panic: %v", r)
		}
	}()
	e.rt = NewRestTester(tb, &RestTesterConfig{
		DatabaseConfig:    &DatabaseConfig{DbConfig: DbConfig{Name: "db"}},
		SyncFn:            channels.DocChannelsSyncFunction,
		LeakyBucketConfig: leaky,
	})
	e.rt.CreateUser("alice", []string{"*"})
	runner := NewBlipTesterClientRunner(t)
	runner.setTB(tb)
	proto := db.CBMobileReplicationV3
	if v4 {
		proto = db.CBMobileReplicationV4
	}
	runner.SetSubprotocols([]string{proto.SubprotocolString()})
	e.client = runner.NewBlipTesterClientOptsWithRT(e.rt, &BlipTesterClientOpts{Username: "alice", AllowCreationWithoutBlipTesterClientRunner: true, SourceID: "btc-c06"})
	e.btcc = runner.SingleCollection(e.client.id)
	if v4 {
		// client clock one hour behind the gateway's: the test double's LWW resolution then always adopts the pulled revision
		skew := uint64(time.Now().Add(-time.Hour).UnixNano())
		e.client.SetHLCClockForTest(func() uint64 { return skew })
	}
	e.installHandlers()
	return e, nil
}

func (e *vfC06CEnv) Close() {
	defer func() { _ = recover() }()
	if e.client != nil {
		func() {
			defer func() { _ = recover() }()
			e.client.Close()
		}()
	}
	if e.rt != nil {
		e.rt.Close()
	}
}

// await waits for the response of a request sent by the harness.
func (e *vfC06CEnv) await(rq *blip.Message) (*blip.Message, error) {
	ch := make(chan *blip.Message, 1)
	go func() { ch <- rq.Response() }()
	select {
	case r := <-ch:
		if r == nil {
			return nil, fmt.Errorf("no response object")
		}
		_, _ = r.Body()
		return r, nil
	case <-time.After(vfC06CWaitBound):
		return nil, kit.InconclusiveErr{Msg: fmt.Sprintf("no response to %s within %v", rq.Profile(), vfC06CWaitBound)}
	}
}

func vfC06RespErr(r *blip.Message) (code string, text string) {
	if r.Type() != blip.ErrorType {
		return "", ""
	}
	b, _ := r.Body()
	return r.Properties["Error-Code"], string(b)
}

// subChanges starts a pull from sequence 0. The gateway admits one feed per connection: while the
// previous feed's goroutine is still unwinding the request is refused and is repeated.
func (e *vfC06CEnv) subChanges(continuous bool) error {
	deadline := time.Now().Add(vfC06CWaitBound)
	for {
		rq := blip.NewRequest()
		rq.SetProfile(db.MessageSubChanges)
		rq.Properties[db.SubChangesContinuous] = fmt.Sprintf("%t", continuous)
		rq.Properties[db.SubChangesSince] = "0"
		rq.Properties[db.SubChangesActiveOnly] = "false"
		if err := vfC06Try(func() { e.btcc.sendPullMsg(rq) }); err != nil {
			return err
		}
		resp, err := e.await(rq)
		if err != nil {
			return err
		}
		code, text := vfC06RespErr(resp)
		if code == "" && resp.Type() != blip.ErrorType {
			return nil
		}
		if !strings.Contains(text, "outstanding subChanges") {
			return fmt.Errorf("subChanges refused: %s %s", code, vfC06Clip(text))
		}
		if time.Now().After(deadline) {
			return kit.InconclusiveErr{Msg: "previous changes feed did not end within " + vfC06CWaitBound.String()}
		}
		time.Sleep(time.Millisecond)
	}
}

func (e *vfC06CEnv) waitFor(what string, cond func() bool) error {
	deadline := time.Now().Add(vfC06CWaitBound)
	for {
		e.mu.Lock()
		ok := cond()
		e.mu.Unlock()
		if ok {
			return nil
		}
		if tr := e.tb.trouble(); tr != "" {
			return kit.InconclusiveErr{Msg: "test-double assertion on a handler goroutine: " + tr}
		}
		if time.Now().After(deadline) {
			e.mu.Lock()
			msg := fmt.Sprintf("%s not reached within %v (requested=%d received=%d nulls=%v handled=%d)", what, vfC06CWaitBound, e.requested, e.received, e.nulls, len(e.done))
			e.mu.Unlock()
			return kit.InconclusiveErr{Msg: msg}
		}
		time.Sleep(200 * time.Microsecond)
	}
}

// pullOnce runs a one-shot pull to its logical end and returns how many revisions the client asked for
// and how many it stored while it ran.
func (e *vfC06CEnv) pullOnce() (requested, stored int, err error) {
	e.mu.Lock()
	start, req0, st0 := len(e.nulls), e.requested, e.stored
	e.mu.Unlock()
	if err := e.subChanges(false); err != nil {
		return 0, 0, err
	}
	err = e.waitFor("end of one-shot pull", func() bool {
		if len(e.nulls) <= start {
			return false
		}
		end := e.nulls[start]
		for s := blip.MessageNumber(1); s < end; s++ {
			if !e.done[s] {
				return false
			}
		}
		return e.received >= e.requested
	})
	if err != nil {
		return 0, 0, err
	}
	e.mu.Lock()
	defer e.mu.Unlock()
	return e.requested - req0, e.stored - st0, nil
}

func (e *vfC06CEnv) startContinuous() error {
	e.mu.Lock()
	e.contNulls = len(e.nulls)
	e.mu.Unlock()
	if err := e.subChanges(true); err != nil {
		return err
	}
	e.continuous, e.everContinue = true, true
	return nil
}

// stopContinuous waits for the feed's caught-up signal (so that every later empty changes message
// belongs to a later feed) and unsubscribes.
func (e *vfC06CEnv) stopContinuous() error {
	if !e.continuous {
		return nil
	}
	e.continuous = false
	if err := e.waitFor("caught-up signal of the continuous pull", func() bool { return len(e.nulls) > e.contNulls }); err != nil {
		return err
	}
	rq := blip.NewRequest()
	rq.SetProfile(db.MessageUnsubChanges)
	if err := vfC06Try(func() { e.btcc.sendPullMsg(rq) }); err != nil {
		return err
	}
	resp, err := e.await(rq)
	if err != nil {
		return err
	}
	if code, text := vfC06RespErr(resp); resp.Type() == blip.ErrorType {
		return fmt.Errorf("unsubChanges refused: %s %s", code, vfC06Clip(text))
	}
	return nil
}

type vfC06Push struct {
	Doc      string
	Rev      string
	Base     string
	Deleted  bool
	Propose  int // status of the proposeChanges entry (0 = send it)
	RevSent  bool
	RevCode  string // Error-Code of the rev response ("" = accepted)
	Accepted bool
	Conflict bool
	Exists   bool
	Other    string // any other refusal
}

func (p *vfC06Push) String() string {
	s := fmt.Sprintf("push(%s rev=%s base=%s del=%v propose=%d", p.Doc, p.Rev, p.Base, p.Deleted, p.Propose)
	if p.RevSent {
		s += " rev->" + map[bool]string{true: "ok", false: p.RevCode}[p.RevCode == ""]
	}
	if p.Other != "" {
		s += " other=" + p.Other
	}
	return s + ")"
}

// pushDoc pushes the client's unpushed latest revision of the document the way Couchbase Lite does:
// proposeChanges, then rev. force = send the rev although proposeChanges reported a conflict (what the
// test double's own push does after refreshing its idea of the server revision; the gateway must reject
// the rev itself). Returns nil when there is nothing to push.
func (e *vfC06CEnv) pushDoc(docID string, force, noConflictsFlag bool) (*vfC06Push, error) {
	entry, body, ok := e.unpushedEntry(docID)
	if !ok {
		return nil, nil
	}
	out := &vfC06Push{Doc: docID, Rev: entry.Rev(), Deleted: entry.isDelete}
	if e.v4 {
		out.Base = entry.latestServerVersion.CV.String()
	} else {
		out.Base = entry.latestServerVersion.RevTreeID
	}
	pb, err := base.JSONMarshal([]proposeChangeBatchEntry{*entry})
	if err != nil {
		return nil, err
	}
	rq := blip.NewRequest()
	rq.SetProfile(db.MessageProposeChanges)
	rq.Properties[db.ProposeChangesConflictsIncludeRev] = "true"
	rq.SetBody(pb)
	if err := vfC06Try(func() { e.btcc.sendPushMsg(rq) }); err != nil {
		return nil, err
	}
	resp, err := e.await(rq)
	if err != nil {
		return nil, err
	}
	if code, text := vfC06RespErr(resp); resp.Type() == blip.ErrorType {
		out.Other = "proposeChanges error " + code + " " + vfC06Clip(text)
		return out, nil
	}
	rb, _ := resp.Body()
	var answer []any
	if len(bytes.TrimSpace(rb)) > 0 {
		if err := json.Unmarshal(rb, &answer); err != nil {
			out.Other = "unreadable proposeChanges response " + vfC06Clip(string(rb))
			return out, nil
		}
	}
	if len(answer) > 0 {
		switch a := answer[0].(type) {
		case float64:
			out.Propose = int(a)
		case map[string]any:
			if s, ok := a["status"].(float64); ok {
				out.Propose = int(s)
			}
		}
	}
	switch out.Propose {
	case 0:
	case 304:
		out.Exists = true
		e.markPushed(docID, entry.version, rq)
		return out, nil
	case 409:
		if !force {
			out.Conflict = true
			return out, nil
		}
	default:
		out.Other = fmt.Sprintf("proposeChanges status %d", out.Propose)
		return out, nil
	}
	rv := blip.NewRequest()
	rv.SetProfile(db.MessageRev)
	rv.Properties[db.RevMessageID] = docID
	rv.Properties[db.RevMessageRev] = entry.Rev()
	rv.Properties[db.RevMessageHistory] = entry.historyStr()
	if entry.isDelete {
		rv.Properties[db.RevMessageDeleted] = "1"
	}
	if noConflictsFlag {
		rv.Properties[db.RevMessageNoConflicts] = "true"
	}
	rv.SetBody(body)
	if err := vfC06Try(func() { e.btcc.sendPushMsg(rv) }); err != nil {
		return nil, err
	}
	rresp, err := e.await(rv)
	if err != nil {
		return nil, err
	}
	out.RevSent = true
	if rresp.Type() == blip.ErrorType {
		code, text := vfC06RespErr(rresp)
		out.RevCode = code
		if code == "409" {
			out.Conflict = true
		} else {
			out.Other = "rev error " + code + " " + vfC06Clip(text)
		}
		return out, nil
	}
	out.Accepted = true
	e.markPushed(docID, entry.version, rv)
	return out, nil
}

// proposeOnly asks the gateway whether it would want the client's current revision (no remote ancestor named).
func (e *vfC06CEnv) proposeOnly(docID, rev string) (int, error) {
	pb, _ := json.Marshal([][]string{{docID, rev}})
	rq := blip.NewRequest()
	rq.SetProfile(db.MessageProposeChanges)
	rq.SetBody(pb)
	if err := vfC06Try(func() { e.btcc.sendPushMsg(rq) }); err != nil {
		return 0, err
	}
	resp, err := e.await(rq)
	if err != nil {
		return 0, err
	}
	if code, text := vfC06RespErr(resp); resp.Type() == blip.ErrorType {
		return 0, fmt.Errorf("proposeChanges error %s %s", code, vfC06Clip(text))
	}
	rb, _ := resp.Body()
	var answer []any
	if len(bytes.TrimSpace(rb)) > 0 {
		if err := json.Unmarshal(rb, &answer); err != nil {
			return 0, fmt.Errorf("unreadable proposeChanges response %s", vfC06Clip(string(rb)))
		}
	}
	if len(answer) == 0 {
		return 0, nil
	}
	switch a := answer[0].(type) {
	case float64:
		return int(a), nil
	case map[string]any:
		if s, ok := a["status"].(float64); ok {
			return int(s), nil
		}
	}
	return -1, nil
}

// gatewayHasRev reports whether the gateway's document contains the revision a client pushed (rev-tree:
// the id is in the revision tree; version-vector: the document's HLV dominates the version).
func (e *vfC06CEnv) gatewayHasRev(docID, rev string) (bool, string, error) {
	coll, ctx := e.rt.GetSingleTestDatabaseCollection()
	doc, err := coll.GetDocument(ctx, docID, db.DocUnmarshalAll)
	if err != nil {
		if base.IsDocNotFoundError(err) {
			return false, "document not found", nil
		}
		return false, "", err
	}
	if e.v4 && !base.IsRevTreeID(rev) {
		v, err := db.ParseVersion(rev)
		if err != nil {
			return false, "", err
		}
		if doc.HLV == nil {
			return false, "no HLV", nil
		}
		return doc.HLV.DominatesSource(v), fmt.Sprintf("cv=%s pv=%v mv=%v", doc.HLV.GetCurrentVersionString(), doc.HLV.PreviousVersions, doc.HLV.MergeVersions), nil
	}
	_, ok := doc.History[rev]
	st, _ := vfC06Read(e.rt, docID)
	return ok, st.Tree, nil
}

// Known finding (root cause listed under C05 as resurrection-write-overwrites-concurrent-tombstone-write): a
// write that makes a deleted document live again is stored with insert semantics and no CAS, so a revision
// acknowledged inside its read->write window that leaves the document a tombstone is overwritten.
const vfC06SigLostPush = "client-tombstone-push-acknowledged-then-lost-to-concurrent-gateway-resurrection"

// vfC06CReproLostPush is the deterministic reproduction: the gateway holds a tombstone of d0 which the
// client has pulled; the client resurrects and deletes d0 locally (live revision + tombstone on top of the
// pulled tombstone); a PUT on the gateway resurrects d0 and, between that write's read and its store
// (repository's LeakyBucket UpdateCallback), the client's push is sent and acknowledged.
func vfC06CReproLostPush(t *testing.T, v4 bool) (reproduced bool, detail string, err error) {
	var armed atomic.Bool
	var hook func()
	e, err := vfC06CSetupLeaky(t, v4, &base.LeakyBucketConfig{UpdateCallback: func(key string) {
		if key == "d0" && armed.CompareAndSwap(true, false) {
			hook()
		}
	}})
	if e != nil {
		defer e.Close()
	}
	if err != nil {
		return false, "", err
	}
	err = vfC06Try(func() {
		if resp := e.rt.SendAdminRequest("PUT", "/{{.keyspace}}/d0", `{"v":1,"by":"G","channels":["ch"]}`); resp.Code != 201 {
			panic(kit.InconclusiveErr{Msg: fmt.Sprintf("create answered %d", resp.Code)})
		}
		st, rerr := vfC06Read(e.rt, "d0")
		if rerr != nil {
			panic(kit.InconclusiveErr{Msg: rerr.Error()})
		}
		if resp := e.rt.SendAdminRequest("DELETE", "/{{.keyspace}}/d0?rev="+st.Rev, ""); resp.Code != 200 {
			panic(kit.InconclusiveErr{Msg: fmt.Sprintf("delete answered %d", resp.Code)})
		}
		e.rt.GetDatabase().WaitForPendingChanges(e.tb)
	})
	if err != nil {
		return false, "", err
	}
	if _, _, err := e.pullOnce(); err != nil {
		return false, "", err
	}
	c := e.readClient("d0")
	if !c.Exists || !c.Deleted {
		return false, "", fmt.Errorf("client did not pull the tombstone: %+v", c)
	}
	err = vfC06Try(func() {
		v := c.Version
		var nv DocVersion
		if v4 {
			nv = e.btcc.AddRev("d0", &v, []byte(`{"v":2,"by":"C","channels":["ch"]}`))
		} else {
			nv = e.btcc.AddRevTreeRev("d0", fmt.Sprintf("%d-c1", vfC06RevGen(v.RevTreeID)+1), &v, []byte(`{"v":2,"by":"C","channels":["ch"]}`))
		}
		e.btcc.Delete("d0", &nv)
	})
	if err != nil {
		return false, "", err
	}
	var p *vfC06Push
	var perr error
	hook = func() { p, perr = e.pushDoc("d0", false, false) }
	armed.Store(true)
	var code int
	err = vfC06Try(func() {
		code = e.rt.SendAdminRequest("PUT", "/{{.keyspace}}/d0", `{"v":3,"by":"G","channels":["ch"]}`).Code
	})
	if err != nil {
		return false, "", err
	}
	if perr != nil {
		return false, "", perr
	}
	if p == nil {
		return false, "", fmt.Errorf("the push hook did not run (PUT answered %d)", code)
	}
	if !p.Accepted {
		return false, fmt.Sprintf("push not acknowledged: %s; PUT answered %d", p, code), nil
	}
	has, tree, err := e.gatewayHasRev("d0", p.Rev)
	if err != nil {
		return false, "", err
	}
	g, _ := vfC06Read(e.rt, "d0")
	detail = fmt.Sprintf("%s acknowledged while PUT (answered %d) was between read and store; gateway afterwards: current rev %s deleted=%v, %s", p, code, g.Rev, g.Deleted, tree)
	return !has, detail, nil
}

func vfC06DecodeBody(b []byte) (map[string]any, error) {
	var m map[string]any
	dec := json.NewDecoder(bytes.NewReader(b))
	dec.UseNumber()
	if err := dec.Decode(&m); err != nil {
		return nil, err
	}
	return vfC06StripBody(m), nil
}

func TestVerif_C06_Client(t *testing.T) {
	rec := kit.New("C06", "Client")
	defer rec.Flush()
	docIDs := []string{"d0", "d1", "d2"}
	docPick := []string{"d0", "d0", "d0", "d0", "d1", "d1", "d2"}
	actions := []string{"gw-put", "gw-put", "gw-put", "gw-delete", "gw-delete", "cl-edit", "cl-edit", "cl-edit", "cl-delete", "cl-delete", "push", "push", "push", "race",
		"pull-once", "pull-once", "pull-start", "pull-stop", "barrier"}
	knownLostPush := kit.Known("C06", vfC06SigLostPush)
	defer func() {
		// regression for the listed finding (deterministic interleaving through the repository's LeakyBucket hook)
		if idx, _ := kit.Shard(); idx != 0 {
			return
		}
		for _, v4 := range []bool{false, true} {
			proto := map[bool]string{false: "rev-tree client", true: "version-vector client"}[v4]
			reproduced, detail, err := vfC06CReproLostPush(t, v4)
			switch {
			case err != nil:
				kit.Note("C06", "regression %s (%s) could not run: %v", vfC06SigLostPush, proto, err)
			case reproduced && knownLostPush:
				kit.KnownFinding("C06", vfC06SigLostPush, proto+": push of a client tombstone acknowledged (proposeChanges 0, rev accepted) inside the read->store window of the gateway's resurrecting PUT (201); afterwards the gateway's document does not contain the pushed revisions")
			case reproduced:
				kit.Violation(t, "C06", "Client", "regression "+vfC06SigLostPush+" ("+proto+")", "the gateway acknowledged a pushed revision and lost it: %s", detail)
			}
		}
	}()
	rapid.Check(t, func(rt *rapid.T) {
		protoName := rapid.SampledFrom([]string{"v4", "v3"}).Draw(rt, "protocol")
		var ops []string
		render := func() string { return fmt.Sprintf("protocol=%s: %s", protoName, strings.Join(ops, "; ")) }
		var e *vfC06CEnv
		defer func() {
			if e != nil {
				e.Close()
			}
		}()
		defer func() {
			if r := recover(); r != nil {
				if ie, ok := r.(kit.InconclusiveErr); ok {
					rec.Inconclusive()
					kit.InconclusiveLine("C06", "%v (case: %s)", ie, render())
					rt.Skip()
				}
				panic(r)
			}
		}()
		var err error
		setupStart := time.Now()
		e, err = vfC06CSetup(t, protoName == "v4")
		if err != nil {
			rec.Inconclusive()
			kit.InconclusiveLine("C06", "client setup: %v", err)
			rt.Skip()
		}
		fail := func(format string, args ...any) {
			kit.Violation(rt, "C06", "Client", render(), format, args...)
		}
		infra := func(err error) {
			rec.Inconclusive()
			kit.InconclusiveLine("C06", "%v (case: %s)", err, render())
			rt.Skip()
		}
		checkTrouble := func() {
			if tr := e.tb.trouble(); tr != "" {
				infra(fmt.Errorf("test-double assertion on a handler goroutine: %s", tr))
			}
		}
		version := 0
		classes := map[string]bool{}
		held := map[string]bool{} // documents the client has ever held
		nPushRejected, nPushAccepted := 0, 0

		// gateway-side edit through the admin REST API; tolerateConflict for the racing variant
		gwEdit := func(id, kind string, tolerateConflict bool) {
			st, err := vfC06Read(e.rt, id)
			if err != nil {
				infra(err)
			}
			version++
			var resp *TestResponse
			switch kind {
			case "put":
				body := fmt.Sprintf(`{"v":%d,"by":"G","channels":["ch"]}`, version)
				path := "/{{.keyspace}}/" + id
				if st.Exists && !st.Deleted {
					path += "?rev=" + st.Rev
				}
				if st.Exists && st.Deleted {
					classes["resurrect-gateway"] = true
				}
				resp = e.rt.SendAdminRequest("PUT", path, body)
			case "delete":
				if !st.Exists || st.Deleted {
					ops = append(ops, fmt.Sprintf("G:delete(%s)=noop", id))
					return
				}
				resp = e.rt.SendAdminRequest("DELETE", "/{{.keyspace}}/"+id+"?rev="+st.Rev, "")
			}
			ops = append(ops, fmt.Sprintf("G:%s(%s,v%d)=%d", kind, id, version, resp.Code))
			if resp.Code == 409 && tolerateConflict {
				classes["race-gateway-edit-lost"] = true
				return
			}
			if resp.Code != 200 && resp.Code != 201 {
				infra(fmt.Errorf("gateway %s of %s answered %d %s", kind, id, resp.Code, resp.Body.String()))
			}
		}

		// client-side local edit through the client's own API; the API asserts that the parent is still the
		// latest revision, which a concurrently arriving pulled revision can invalidate: repeat then
		clEdit := func(id, kind string) bool {
			for attempt := 0; attempt < 8; attempt++ {
				cur := e.readClient(id)
				if cur.NoRev {
					return false
				}
				var parent *DocVersion
				if cur.Exists {
					v := cur.Version
					parent = &v
				}
				if kind == "delete" && (!cur.Exists || cur.Deleted) {
					ops = append(ops, fmt.Sprintf("C:delete(%s)=noop", id))
					return false
				}
				version++
				body := []byte(fmt.Sprintf(`{"v":%d,"by":"C","channels":["ch"]}`, version))
				err := vfC06Try(func() {
					switch {
					case kind == "delete":
						e.btcc.Delete(id, parent)
					case e.v4:
						e.btcc.AddRev(id, parent, body)
					default:
						gen := 1
						if parent != nil {
							gen = vfC06RevGen(parent.RevTreeID) + 1
						}
						h := fnv.New32a()
						_, _ = h.Write(body)
						e.btcc.AddRevTreeRev(id, fmt.Sprintf("%d-c%08x", gen, h.Sum32()), parent, body)
					}
				})
				if err == nil {
					after := e.readClient(id)
					ops = append(ops, fmt.Sprintf("C:%s(%s,v%d)=%s", kind, id, version, after.id(e.v4)))
					if kind == "put" && cur.Exists && cur.Deleted {
						classes["resurrect-client"] = true
					}
					held[id] = true
					return true
				}
				version--
			}
			infra(fmt.Errorf("client-side %s of %s kept racing with the pull", kind, id))
			return false
		}

		judgePush := func(p *vfC06Push, gw vfC06DocState, sync bool) {
			if p == nil {
				return
			}
			ops = append(ops, p.String())
			if p.Conflict {
				nPushRejected++
				classes["push-conflict-rejected"] = true
			}
			if p.Accepted {
				nPushAccepted++
				classes["push-accepted"] = true
				if p.Deleted {
					classes["client-delete-pushed"] = true
				}
				has, tree, err := e.gatewayHasRev(p.Doc, p.Rev)
				if err != nil {
					infra(err)
				}
				if !has {
					fail("the gateway acknowledged the pushed revision %s of %s but its document does not contain it (acknowledged push lost): %s", p.Rev, p.Doc, tree)
				}
			}
			if !sync {
				if p.Other != "" {
					// racing with a gateway write: an answer other than accepted / conflict is not expected either
					fail("push of %s rev %s (racing with a gateway edit) was refused with neither success nor a conflict: %s", p.Doc, p.Rev, p.Other)
				}
				return
			}
			expect := ""
			switch {
			case !gw.Exists:
				expect = "accept"
			case e.v4 && p.Base != "" && gw.CV == p.Base:
				expect = "accept"
			case !e.v4 && p.Base != "" && gw.Rev == p.Base:
				expect = "accept"
			case !gw.Deleted:
				expect = "reject"
			}
			if p.Other != "" {
				fail("push of %s rev %s (client's known gateway revision %q, gateway current rev %s cv %s deleted=%v) was refused with neither success nor a conflict: %s", p.Doc, p.Rev, p.Base, gw.Rev, gw.CV, gw.Deleted, p.Other)
			}
			if expect == "accept" && !p.Accepted && !p.Exists {
				fail("client revision %s of %s is a child of the gateway's current revision (%q; gateway rev %s cv %s exists=%v) but was rejected: %s", p.Rev, p.Doc, p.Base, gw.Rev, gw.CV, gw.Exists, p)
			}
			if expect == "reject" && (p.Accepted || p.Exists) {
				fail("conflicting client revision %s of %s (its parent on the gateway is %q, the gateway's live current revision is rev %s cv %s) was accepted instead of being rejected with 409: %s", p.Rev, p.Doc, p.Base, gw.Rev, gw.CV, p)
			}
		}

		// Domain restriction (rev-tree client only): a parentless client revision is not pushed while the
		// gateway holds a tombstone of that document. The gateway accepts it as a disconnected second branch
		// (IsIllegalConflict case c); the test double cannot relate revisions of two branches (a tombstone of the
		// old branch still in flight on the pull side would replace the accepted revision on the client). The
		// client pushes after its next pull instead, which replaces the local creation by the tombstone.
		parentless := func(id string) bool {
			entry, _, ok := e.unpushedEntry(id)
			return ok && entry.latestServerVersion.RevTreeID == "" && entry.latestServerVersion.CV.IsEmpty()
		}
		deferPush := func(id string, gw vfC06DocState) bool {
			if !e.v4 && gw.Exists && gw.Deleted && parentless(id) {
				classes["parentless-push-onto-tombstone-deferred"] = true
				ops = append(ops, fmt.Sprintf("push(%s) deferred: parentless revision, gateway holds a tombstone", id))
				return true
			}
			return false
		}
		pushAll := func(force, ncFlag bool) {
			for _, id := range docIDs {
				if _, _, ok := e.unpushedEntry(id); !ok {
					continue
				}
				gw, err := vfC06Read(e.rt, id)
				if err != nil {
					infra(err)
				}
				if deferPush(id, gw) {
					continue
				}
				p, err := e.pushDoc(id, force, ncFlag)
				if err != nil {
					infra(err)
				}
				judgePush(p, gw, true)
			}
		}

		waitCache := func() {
			if err := vfC06Try(func() { e.rt.GetDatabase().WaitForPendingChanges(e.tb) }); err != nil {
				infra(err)
			}
		}

		barrier := func() {
			if err := e.stopContinuous(); err != nil {
				infra(err)
			}
			pushAll(rapid.Bool().Draw(rt, "force"), rapid.Bool().Draw(rt, "noconflicts"))
			waitCache()
			const maxRuns = 6
			runs := 0
			for {
				req, _, err := e.pullOnce()
				if err != nil {
					infra(err)
				}
				runs++
				if req == 0 {
					break
				}
				if runs >= maxRuns {
					ops = append(ops, fmt.Sprintf("barrier: pull #%d still requested %d revisions", runs, req))
					fail("pull does not reach a fix-point: one-shot pull #%d after quiescence still transferred %d revisions", runs, req)
				}
			}
			checkTrouble()
			ops = append(ops, fmt.Sprintf("barrier(%d pulls)", runs))
			rec.Class("barrier_pulls", int64(runs))
			for _, id := range docIDs {
				g, err := vfC06Read(e.rt, id)
				if err != nil {
					infra(err)
				}
				c := e.readClient(id)
				if c.Exists {
					held[id] = true
				}
				if !g.Exists && !c.Exists && !c.NoRev {
					continue
				}
				rec.Class("agreement_checks", 1)
				live := 0
				for _, r := range g.Revs {
					if r.Leaf && !r.Deleted {
						live++
					}
				}
				if live > 1 {
					fail("gateway document %s has %d live leaf revisions in conflict-free mode (no single winner): %s", id, live, g.Tree)
				}
				if c.Unpushed {
					fail("after push and caught-up pull the client's latest revision %s of %s is neither on the gateway nor replaced by the gateway's revision (client knows gateway revision %v; gateway rev %s cv %s deleted=%v)", c.id(e.v4), id, c.Base, g.Rev, g.CV, g.Deleted)
				}
				if !c.Exists {
					if g.Deleted && !held[id] {
						classes["tombstone-of-never-held-doc"] = true
						continue // a tombstone of a document the client never held: nothing to replicate
					}
					fail("document %s (gateway rev %s cv %s deleted=%v) is missing on the client after a caught-up pull (client norev=%v)", id, g.Rev, g.CV, g.Deleted, c.NoRev)
				}
				if !g.Exists {
					fail("document %s (client %s deleted=%v) is missing on the gateway after a caught-up push", id, c.id(e.v4), c.Deleted)
				}
				if g.Deleted != c.Deleted {
					fail("document %s tombstone state differs after catch-up: gateway deleted=%v (rev %s cv %s) client deleted=%v (%s)\ngateway tree: %s | %s\nclient: %s", id, g.Deleted, g.Rev, g.CV, c.Deleted, c.id(e.v4), g.Tree, g.HLV, c.HLV)
				}
				if !e.v4 && g.Rev != c.Version.RevTreeID {
					fail("document %s current revision differs after catch-up (rev-tree client): gateway %s client %s\ngateway tree: %s", id, g.Rev, c.Version.RevTreeID, g.Tree)
				}
				if e.v4 && g.CV != c.Version.CV.String() {
					fail("document %s current version differs after catch-up (version-vector client): gateway %s (rev %s) client %s\ngateway: %s | %s\nclient: %s", id, g.CV, g.Rev, c.Version.CV.String(), g.Tree, g.HLV, c.HLV)
				}
				if !g.Deleted {
					cb, err := vfC06DecodeBody(c.Body)
					if err != nil {
						fail("document %s: the body the client holds for %s is not a JSON object: %s", id, c.id(e.v4), vfC06Clip(string(c.Body)))
					}
					if !reflect.DeepEqual(vfC06StripBody(g.Body), cb) {
						fail("document %s body differs after catch-up: gateway %v client %v", id, g.Body, cb)
					}
				}
				// re-running the push side: the gateway must not want the revision it already has
				status, err := e.proposeOnly(id, c.id(e.v4))
				if err != nil {
					infra(err)
				}
				if status != 304 {
					fail("re-running a caught-up push would transfer a revision: proposeChanges for %s %s, which is the gateway's current revision, is answered %d instead of 304", id, c.id(e.v4), status)
				}
			}
		}

		caseStart := time.Now()
		if rapid.IntRange(0, 2).Draw(rt, "warm") > 0 {
			// most histories start from documents both sides already share
			gwEdit("d0", "put", false)
			gwEdit("d1", "put", false)
			waitCache()
			if _, _, err := e.pullOnce(); err != nil {
				infra(err)
			}
			ops = append(ops, "pull-once")
		}
		nSteps := rapid.IntRange(3, kit.Pick(16, 24)).Draw(rt, "steps")
		for i := 0; i < nSteps; i++ {
			checkTrouble()
			action := rapid.SampledFrom(actions).Draw(rt, "action")
			if vfC06CTrace {
				t0, n0 := time.Now(), len(ops)
				vfC06CTraceStep = func() {
					fmt.Printf("TRACE step %d %s took %v ops=%v\n", i, action, time.Since(t0), ops[n0:])
				}
			}
			switch action {
			case "gw-put":
				gwEdit(rapid.SampledFrom(docPick).Draw(rt, "doc"), "put", false)
			case "gw-delete":
				gwEdit(rapid.SampledFrom(docPick).Draw(rt, "doc"), "delete", false)
			case "cl-edit":
				clEdit(rapid.SampledFrom(docPick).Draw(rt, "doc"), "put")
			case "cl-delete":
				clEdit(rapid.SampledFrom(docPick).Draw(rt, "doc"), "delete")
			case "push":
				pushAll(rapid.Bool().Draw(rt, "force"), rapid.Bool().Draw(rt, "noconflicts"))
			case "race":
				// the client's push of a document and a gateway edit of the same document run concurrently
				id := rapid.SampledFrom(docPick).Draw(rt, "doc")
				if _, _, ok := e.unpushedEntry(id); !ok {
					if !clEdit(id, rapid.SampledFrom([]string{"put", "put", "delete"}).Draw(rt, "kind")) {
						break
					}
				}
				force, nc := rapid.Bool().Draw(rt, "force"), rapid.Bool().Draw(rt, "noconflicts")
				gwKind := rapid.SampledFrom([]string{"put", "put", "delete"}).Draw(rt, "gwkind")
				if gw, err := vfC06Read(e.rt, id); err != nil {
					infra(err)
				} else if deferPush(id, gw) {
					break
				}
				if !e.v4 && parentless(id) {
					gwKind = "put" // a gateway delete landing first would turn the push into the excluded shape
				}
				if entry, _, ok := e.unpushedEntry(id); ok && entry.isDelete {
					if gw, err := vfC06Read(e.rt, id); err != nil {
						infra(err)
					} else if gw.Exists && gw.Deleted && knownLostPush {
						// listed finding: the gateway's resurrecting PUT would race the client's tombstone push
						rec.Excluded(vfC06SigLostPush)
						ops = append(ops, fmt.Sprintf("race(%s) skipped: known finding %s", id, vfC06SigLostPush))
						break
					}
				}
				if entry, _, ok := e.unpushedEntry(id); ok && entry.isDelete {
					// two tombstone writes racing on one key end in an error of the walrus-style test store (its
					// tombstone write refuses an already deleted body before it looks at the CAS), not in a CAS retry
					gwKind = "put"
				}
				type res struct {
					p   *vfC06Push
					err error
				}
				ch := make(chan res, 1)
				go func() {
					defer close(ch)
					p, err := e.pushDoc(id, force, nc)
					ch <- res{p, err}
				}()
				gwEdit(id, gwKind, true)
				r, ok := <-ch
				if !ok {
					infra(fmt.Errorf("push goroutine ended by a test-double assertion: %s", e.tb.trouble()))
				}
				if r.err != nil {
					infra(r.err)
				}
				classes["race"] = true
				judgePush(r.p, vfC06DocState{}, false)
			case "pull-once":
				if e.continuous {
					break
				}
				waitCache()
				req, st, err := e.pullOnce()
				if err != nil {
					infra(err)
				}
				ops = append(ops, fmt.Sprintf("pull-once(requested=%d stored=%d)", req, st))
			case "pull-start":
				if !e.continuous {
					if err := e.startContinuous(); err != nil {
						infra(err)
					}
					ops = append(ops, "pull-start")
				}
			case "pull-stop":
				if e.continuous {
					if err := e.stopContinuous(); err != nil {
						infra(err)
					}
					ops = append(ops, "pull-stop")
				}
			case "barrier":
				barrier()
			}
			if vfC06CTrace && vfC06CTraceStep != nil {
				vfC06CTraceStep()
				for _, id := range docIDs {
					g, _ := vfC06Read(e.rt, id)
					c := e.readClient(id)
					if g.Exists || c.Exists {
						fmt.Printf("  %s gateway: cur=%s cv=%s del=%v tree=%s | client: %s del=%v base=%v unpushed=%v norev=%v\n", id, g.Rev, g.CV, g.Deleted, g.Tree, c.id(e.v4), c.Deleted, c.Base, c.Unpushed, c.NoRev)
					}
				}
			}
		}
		tb0 := time.Now()
		barrier()
		if vfC06CTrace {
			fmt.Printf("TRACE final barrier took %v; case took %v (setup %v)\n", time.Since(tb0), time.Since(caseStart), caseStart.Sub(setupStart))
		}
		e.mu.Lock()
		tombs, abandoned, stale, norevs, stored := e.tombsPulled, e.abandoned, e.stale, e.norevs, e.stored
		e.mu.Unlock()
		cl := []string{"protocol=" + protoName}
		if tombs > 0 {
			classes["tombstone-pulled"] = true
		}
		if abandoned > 0 {
			classes["local-branch-replaced-by-pull"] = true
		}
		if stale > 0 {
			classes["stale-rev-ignored"] = true
		}
		if norevs > 0 {
			classes["norev-received"] = true
		}
		if e.everContinue {
			classes["continuous-pull"] = true
		}
		if classes["resurrect-gateway"] || classes["resurrect-client"] {
			classes["resurrect"] = true
		}
		for _, k := range []string{"push-accepted", "push-conflict-rejected", "client-delete-pushed", "tombstone-pulled", "resurrect", "resurrect-gateway", "resurrect-client",
			"local-branch-replaced-by-pull", "race", "race-gateway-edit-lost", "continuous-pull", "stale-rev-ignored", "norev-received", "tombstone-of-never-held-doc", "parentless-push-onto-tombstone-deferred"} {
			if classes[k] {
				cl = append(cl, k)
			}
		}
		rec.Class("revs_pulled", int64(stored))
		rec.Class("pushes_accepted", int64(nPushAccepted))
		rec.Class("pushes_rejected_409", int64(nPushRejected))
		nontrivial := (classes["push-conflict-rejected"] && abandoned > 0) || classes["client-delete-pushed"] || classes["tombstone-pulled"]
		rec.Case(render(), nontrivial, cl...)
	})
}
