package rest

// C19 — JSON machinery of the check: value model, recursive rapid generator, serialiser with
// generated whitespace / key order / escaping, token-level decoder that keeps duplicate keys,
// exact-rational comparator, and the rapid self-test of decoder + comparator.
// Injected into package rest by the /verif driver (build overlay); never part of /repo.

import (
	"bytes"
	"encoding/json"
	"fmt"
	"io"
	"math"
	"math/big"
	"sort"
	"strconv"
	"strings"
	"testing"
	"unicode/utf16"
	"unicode/utf8"

	kit "github.com/couchbase/sync_gateway/verifkit"
	"pgregory.net/rapid"
)

// vfC19Val is a JSON value. Numbers are kept as their literal text; objects keep their members in
// textual order and may (after decoding a response) hold the same key more than once.
type vfC19Val struct {
	Kind byte // 'o' object, 'a' array, 's' string, 'n' number, 't' true, 'f' false, 'z' null
	Str  string
	Keys []string
	Vals []*vfC19Val
}

func vfC19Obj() *vfC19Val { return &vfC19Val{Kind: 'o'} }

func (v *vfC19Val) Set(k string, x *vfC19Val) *vfC19Val {
	v.Keys = append(v.Keys, k)
	v.Vals = append(v.Vals, x)
	return v
}

func (v *vfC19Val) Get(k string) *vfC19Val {
	for i := len(v.Keys) - 1; i >= 0; i-- {
		if v.Keys[i] == k {
			return v.Vals[i]
		}
	}
	return nil
}

// Without returns a shallow copy of the object without the named members.
func (v *vfC19Val) Without(drop map[string]bool) *vfC19Val {
	out := vfC19Obj()
	for i, k := range v.Keys {
		if !drop[k] {
			out.Set(k, v.Vals[i])
		}
	}
	return out
}

func vfC19Str(s string) *vfC19Val { return &vfC19Val{Kind: 's', Str: s} }
func vfC19Num(s string) *vfC19Val { return &vfC19Val{Kind: 'n', Str: s} }

// ---------------------------------------------------------------------------------------------
// exact-rational numbers

// vfC19Rat parses a JSON number literal exactly. Exponents are bounded by the generator (|e| <= 400)
// so the rational stays small.
func vfC19Rat(lit string) (*big.Rat, bool) {
	if !vfC19ValidNumber(lit) {
		return nil, false
	}
	if i := strings.IndexAny(lit, "eE"); i >= 0 {
		e, err := strconv.Atoi(strings.TrimPrefix(lit[i+1:], "+"))
		if err != nil || e > 5000 || e < -5000 {
			return nil, false
		}
	}
	r, ok := new(big.Rat).SetString(lit)
	return r, ok
}

// vfC19ValidNumber is the RFC 8259 number grammar.
func vfC19ValidNumber(s string) bool {
	i := 0
	if i < len(s) && s[i] == '-' {
		i++
	}
	if i >= len(s) {
		return false
	}
	if s[i] == '0' {
		i++
	} else if s[i] >= '1' && s[i] <= '9' {
		for i < len(s) && s[i] >= '0' && s[i] <= '9' {
			i++
		}
	} else {
		return false
	}
	if i < len(s) && s[i] == '.' {
		i++
		n := 0
		for i < len(s) && s[i] >= '0' && s[i] <= '9' {
			i++
			n++
		}
		if n == 0 {
			return false
		}
	}
	if i < len(s) && (s[i] == 'e' || s[i] == 'E') {
		i++
		if i < len(s) && (s[i] == '+' || s[i] == '-') {
			i++
		}
		n := 0
		for i < len(s) && s[i] >= '0' && s[i] <= '9' {
			i++
			n++
		}
		if n == 0 {
			return false
		}
	}
	return i == len(s)
}

// vfC19Float64Exact reports whether the literal denotes a value a float64 holds exactly.
func vfC19Float64Exact(lit string) bool {
	r, ok := vfC19Rat(lit)
	if !ok {
		return false
	}
	f, err := strconv.ParseFloat(lit, 64)
	if err != nil || math.IsInf(f, 0) || math.IsNaN(f) {
		return false
	}
	fr := new(big.Rat).SetFloat64(f)
	return fr != nil && fr.Cmp(r) == 0
}

// vfC19OutOfFloatRange reports a literal whose magnitude exceeds the float64 range (1e400).
func vfC19OutOfFloatRange(lit string) bool {
	f, err := strconv.ParseFloat(lit, 64)
	return err != nil || math.IsInf(f, 0)
}

// ---------------------------------------------------------------------------------------------
// comparator

// vfC19Equal compares two values: objects as key->value maps (an object holding a key twice is
// never equal to anything: duplicates are reported separately), numbers as exact rationals.
// It returns "" when equal and a path-qualified description of the first difference otherwise.
func vfC19Equal(want, got *vfC19Val) string { return vfC19Diff("$", want, got) }

func vfC19Diff(path string, a, b *vfC19Val) string {
	if a == nil || b == nil {
		if a == b {
			return ""
		}
		return fmt.Sprintf("%s: one side is missing", path)
	}
	if a.Kind != b.Kind {
		return fmt.Sprintf("%s: kind %c (%s) vs kind %c (%s)", path, a.Kind, vfC19Short(a), b.Kind, vfC19Short(b))
	}
	switch a.Kind {
	case 't', 'f', 'z':
		return ""
	case 's':
		if a.Str != b.Str {
			return fmt.Sprintf("%s: string %q vs %q", path, a.Str, b.Str)
		}
		return ""
	case 'n':
		ra, oka := vfC19Rat(a.Str)
		rb, okb := vfC19Rat(b.Str)
		if !oka || !okb {
			if a.Str == b.Str {
				return ""
			}
			return fmt.Sprintf("%s: unparsable number %q vs %q", path, a.Str, b.Str)
		}
		if ra.Cmp(rb) != 0 {
			return fmt.Sprintf("%s: number %s vs %s", path, a.Str, b.Str)
		}
		return ""
	case 'a':
		if len(a.Vals) != len(b.Vals) {
			return fmt.Sprintf("%s: array length %d vs %d", path, len(a.Vals), len(b.Vals))
		}
		for i := range a.Vals {
			if d := vfC19Diff(fmt.Sprintf("%s[%d]", path, i), a.Vals[i], b.Vals[i]); d != "" {
				return d
			}
		}
		return ""
	case 'o':
		am, ad := vfC19Members(a)
		bm, bd := vfC19Members(b)
		if ad != "" {
			return fmt.Sprintf("%s: key %q twice (left)", path, ad)
		}
		if bd != "" {
			return fmt.Sprintf("%s: key %q twice (right)", path, bd)
		}
		for _, k := range a.Keys {
			if _, ok := bm[k]; !ok {
				return fmt.Sprintf("%s: key %q missing on the right", path, k)
			}
		}
		for _, k := range b.Keys {
			if _, ok := am[k]; !ok {
				return fmt.Sprintf("%s: extra key %q on the right (=%s)", path, k, vfC19Short(bm[k]))
			}
		}
		for _, k := range a.Keys {
			if d := vfC19Diff(path+"."+strconv.Quote(k), am[k], bm[k]); d != "" {
				return d
			}
		}
		return ""
	}
	return fmt.Sprintf("%s: unknown kind %c", path, a.Kind)
}

func vfC19Members(o *vfC19Val) (map[string]*vfC19Val, string) {
	m := make(map[string]*vfC19Val, len(o.Keys))
	dup := ""
	for i, k := range o.Keys {
		if _, ok := m[k]; ok && dup == "" {
			dup = k
		}
		m[k] = o.Vals[i]
	}
	if dup != "" {
		return m, dup
	}
	return m, ""
}

func vfC19Short(v *vfC19Val) string {
	s := vfC19Canon(v)
	if len(s) > 120 {
		s = s[:120] + "…"
	}
	return s
}

// vfC19DupKeys walks a decoded value and returns a description of every object (at any depth) that
// holds the same key twice with different values.
func vfC19DupKeys(path string, v *vfC19Val, out *[]string) {
	switch v.Kind {
	case 'a':
		for i, x := range v.Vals {
			vfC19DupKeys(fmt.Sprintf("%s[%d]", path, i), x, out)
		}
	case 'o':
		first := map[string]*vfC19Val{}
		for i, k := range v.Keys {
			if p, ok := first[k]; ok {
				if vfC19Diff("", p, v.Vals[i]) != "" {
					*out = append(*out, fmt.Sprintf("%s: key %q appears twice: %s and %s", path, k, vfC19Short(p), vfC19Short(v.Vals[i])))
				}
			} else {
				first[k] = v.Vals[i]
			}
			vfC19DupKeys(path+"."+strconv.Quote(k), v.Vals[i], out)
		}
	}
}

// ---------------------------------------------------------------------------------------------
// decoder (token level, number-preserving, keeps duplicate keys)

func vfC19Decode(raw []byte) (*vfC19Val, error) {
	if !json.Valid(raw) {
		return nil, fmt.Errorf("not valid JSON: %s", vfC19Clip(string(raw)))
	}
	dec := json.NewDecoder(bytes.NewReader(raw))
	dec.UseNumber()
	v, err := vfC19DecodeValue(dec)
	if err != nil {
		return nil, err
	}
	if _, err := dec.Token(); err != io.EOF {
		return nil, fmt.Errorf("trailing data after JSON value")
	}
	return v, nil
}

func vfC19DecodeValue(dec *json.Decoder) (*vfC19Val, error) {
	tok, err := dec.Token()
	if err != nil {
		return nil, err
	}
	return vfC19FromToken(dec, tok)
}

func vfC19FromToken(dec *json.Decoder, tok json.Token) (*vfC19Val, error) {
	switch t := tok.(type) {
	case json.Delim:
		switch t {
		case '{':
			o := vfC19Obj()
			for dec.More() {
				kt, err := dec.Token()
				if err != nil {
					return nil, err
				}
				k, ok := kt.(string)
				if !ok {
					return nil, fmt.Errorf("object key is %T", kt)
				}
				x, err := vfC19DecodeValue(dec)
				if err != nil {
					return nil, err
				}
				o.Set(k, x)
			}
			if _, err := dec.Token(); err != nil {
				return nil, err
			}
			return o, nil
		case '[':
			a := &vfC19Val{Kind: 'a'}
			for dec.More() {
				x, err := vfC19DecodeValue(dec)
				if err != nil {
					return nil, err
				}
				a.Vals = append(a.Vals, x)
			}
			if _, err := dec.Token(); err != nil {
				return nil, err
			}
			return a, nil
		}
		return nil, fmt.Errorf("unexpected delimiter %v", t)
	case string:
		return vfC19Str(t), nil
	case json.Number:
		return vfC19Num(string(t)), nil
	case bool:
		if t {
			return &vfC19Val{Kind: 't'}, nil
		}
		return &vfC19Val{Kind: 'f'}, nil
	case nil:
		return &vfC19Val{Kind: 'z'}, nil
	}
	return nil, fmt.Errorf("unexpected token %T", tok)
}

func vfC19Clip(s string) string {
	if len(s) > 400 {
		return s[:400] + "…"
	}
	return s
}

// ---------------------------------------------------------------------------------------------
// serialiser

// vfC19Style decides the textual form. All choices are rapid draws made up front (a bit stream), so
// that serialising is a pure function of (value, style).
type vfC19Style struct {
	bits    []uint64
	pos     int
	Compact bool // no whitespace, generated key order kept, minimal escapes
}

func (st *vfC19Style) next(n int) int {
	if st == nil || st.Compact || len(st.bits) == 0 {
		return 0
	}
	x := st.bits[st.pos%len(st.bits)]
	// mix the position in so that a short bit stream does not repeat visibly
	x ^= uint64(st.pos) * 0x9e3779b97f4a7c15
	x ^= x >> 29
	st.pos++
	return int(x % uint64(n))
}

var vfC19WS = []string{"", "", "", " ", "\n", "\t", "\r\n", "  ", " \n\t"}

func (st *vfC19Style) ws(b *strings.Builder) {
	if st == nil || st.Compact {
		return
	}
	b.WriteString(vfC19WS[st.next(len(vfC19WS))])
}

func vfC19GenStyle(t *rapid.T) *vfC19Style {
	if rapid.IntRange(0, 5).Draw(t, "compact") == 0 {
		return &vfC19Style{Compact: true}
	}
	return &vfC19Style{bits: rapid.SliceOfN(rapid.Uint64(), 4, 12).Draw(t, "style")}
}

// vfC19Ser writes the value; escapedKey is set when an object key was written with an escape
// sequence it did not need.
func vfC19Ser(v *vfC19Val, st *vfC19Style) (text string, escapedKey bool) {
	var b strings.Builder
	vfC19SerInto(&b, v, st, &escapedKey)
	return b.String(), escapedKey
}

// vfC19SerDoc writes a complete JSON text: the value with generated whitespace before and after it.
func vfC19SerDoc(v *vfC19Val, st *vfC19Style) (text string, escapedKey bool) {
	var b strings.Builder
	st.ws(&b)
	vfC19SerInto(&b, v, st, &escapedKey)
	st.ws(&b)
	return b.String(), escapedKey
}

func vfC19SerInto(b *strings.Builder, v *vfC19Val, st *vfC19Style, esc *bool) {
	switch v.Kind {
	case 't':
		b.WriteString("true")
	case 'f':
		b.WriteString("false")
	case 'z':
		b.WriteString("null")
	case 'n':
		b.WriteString(v.Str)
	case 's':
		vfC19SerString(b, v.Str, st)
	case 'a':
		b.WriteByte('[')
		st.ws(b)
		for i, x := range v.Vals {
			if i > 0 {
				b.WriteByte(',')
				st.ws(b)
			}
			vfC19SerInto(b, x, st, esc)
			st.ws(b)
		}
		b.WriteByte(']')
	case 'o':
		idx := make([]int, len(v.Keys))
		for i := range idx {
			idx[i] = i
		}
		if st != nil && !st.Compact {
			for i := len(idx) - 1; i > 0; i-- { // Fisher-Yates from the style bits
				j := st.next(i + 1)
				idx[i], idx[j] = idx[j], idx[i]
			}
		}
		b.WriteByte('{')
		st.ws(b)
		for n, i := range idx {
			if n > 0 {
				b.WriteByte(',')
				st.ws(b)
			}
			if vfC19SerString(b, v.Keys[i], st) {
				*esc = true
			}
			st.ws(b)
			b.WriteByte(':')
			st.ws(b)
			vfC19SerInto(b, v.Vals[i], st, esc)
			st.ws(b)
		}
		b.WriteByte('}')
	}
}

// vfC19SerString writes a JSON string literal. Mode per string: minimal escapes, everything as
// \uXXXX, or a per-character mix (short escapes, \u escapes with upper/lower hex, "\/").
func vfC19SerString(b *strings.Builder, s string, st *vfC19Style) (usedOptionalEscape bool) {
	mode := 0
	if st != nil && !st.Compact {
		mode = st.next(4) // 0,1 minimal; 2 all \u; 3 mixed
	}
	b.WriteByte('"')
	for _, r := range s {
		must := r < 0x20 || r == '"' || r == '\\'
		how := 0 // 0 literal / short, 1 \u
		switch mode {
		case 2:
			how = 1
		case 3:
			how = st.next(3) % 2
		}
		if how == 1 {
			if !must {
				usedOptionalEscape = true
			}
			upper := st.next(2) == 1
			vfC19WriteU(b, r, upper)
			continue
		}
		switch r {
		case '"':
			b.WriteString(`\"`)
		case '\\':
			b.WriteString(`\\`)
		case '\n':
			b.WriteString(`\n`)
		case '\r':
			b.WriteString(`\r`)
		case '\t':
			b.WriteString(`\t`)
		case '\b':
			b.WriteString(`\b`)
		case '\f':
			b.WriteString(`\f`)
		case '/':
			if mode == 3 && st.next(2) == 1 {
				b.WriteString(`\/`)
				usedOptionalEscape = true
			} else {
				b.WriteByte('/')
			}
		default:
			if r < 0x20 {
				vfC19WriteU(b, r, false)
			} else {
				b.WriteRune(r)
			}
		}
	}
	b.WriteByte('"')
	return usedOptionalEscape
}

func vfC19WriteU(b *strings.Builder, r rune, upper bool) {
	f := `\u%04x`
	if upper {
		f = `\u%04X`
	}
	if r >= 0x10000 {
		r1, r2 := utf16.EncodeRune(r)
		fmt.Fprintf(b, f, r1)
		fmt.Fprintf(b, f, r2)
		return
	}
	fmt.Fprintf(b, f, r)
}

// vfC19Canon renders a value compactly with sorted keys (used for renders and hashing only).
func vfC19Canon(v *vfC19Val) string {
	var b strings.Builder
	vfC19CanonInto(&b, v)
	return b.String()
}

func vfC19CanonInto(b *strings.Builder, v *vfC19Val) {
	switch v.Kind {
	case 'o':
		idx := make([]int, len(v.Keys))
		for i := range idx {
			idx[i] = i
		}
		sort.SliceStable(idx, func(x, y int) bool { return v.Keys[idx[x]] < v.Keys[idx[y]] })
		b.WriteByte('{')
		for n, i := range idx {
			if n > 0 {
				b.WriteByte(',')
			}
			b.WriteString(strconv.QuoteToASCII(v.Keys[i]))
			b.WriteByte(':')
			vfC19CanonInto(b, v.Vals[i])
		}
		b.WriteByte('}')
	case 'a':
		b.WriteByte('[')
		for i, x := range v.Vals {
			if i > 0 {
				b.WriteByte(',')
			}
			vfC19CanonInto(b, x)
		}
		b.WriteByte(']')
	case 's':
		b.WriteString(strconv.QuoteToASCII(v.Str))
	case 'n':
		b.WriteString(v.Str)
	case 't':
		b.WriteString("true")
	case 'f':
		b.WriteString("false")
	case 'z':
		b.WriteString("null")
	}
}

// ---------------------------------------------------------------------------------------------
// generator

var vfC19NumPool = []string{
	"0", "-0", "1", "-1", "7", "1.0", "-1.0", "0.0", "-0.0", "1.5", "0.1", "0.30000000000000004", "3.141592653589793238462643383279",
	"9007199254740991", "9007199254740992", "9007199254740993", "-9007199254740991", "-9007199254740992", "-9007199254740993",
	"9223372036854775807", "9223372036854775808", "-9223372036854775808", "-9223372036854775809",
	"18446744073709551615", "18446744073709551616", "18446744073709551617",
	"123456789012345678901234567890", "-987654321098765432109876543210", "100000000000000000000000000001",
	"123456789012345678901234567890.123456789",
	"1e3", "1E3", "1e+3", "1E-3", "1.25e2", "12e0", "0e0", "0E-0", "-1.5e-7", "1e21", "1e22", "1e23", "5e-324", "2.5e-324", "1.7976931348623157e308",
	"1e400", "-1e400", "1E+400", "1e-400", "17e399",
}

func vfC19GenNumber() *rapid.Generator[string] {
	return rapid.OneOf(
		rapid.SampledFrom(vfC19NumPool),
		rapid.SampledFrom(vfC19NumPool),
		rapid.Custom(func(t *rapid.T) string {
			var b strings.Builder
			if rapid.Bool().Draw(t, "neg") {
				b.WriteByte('-')
			}
			intDigits := rapid.SampledFrom([]int{1, 1, 2, 5, 16, 17, 19, 20, 30}).Draw(t, "intDigits")
			first := rapid.IntRange(1, 9).Draw(t, "d0")
			b.WriteByte(byte('0' + first))
			if intDigits > 1 {
				b.WriteString(rapid.StringMatching(fmt.Sprintf("[0-9]{%d}", intDigits-1)).Draw(t, "ds"))
			}
			if rapid.IntRange(0, 2).Draw(t, "frac") == 0 {
				b.WriteByte('.')
				b.WriteString(rapid.StringMatching("[0-9]{1,20}").Draw(t, "fs"))
			}
			if rapid.IntRange(0, 3).Draw(t, "exp") == 0 {
				b.WriteString(rapid.SampledFrom([]string{"e", "E", "e+", "E-", "e-"}).Draw(t, "e"))
				b.WriteString(strconv.Itoa(rapid.IntRange(0, 40).Draw(t, "ev")))
			}
			return b.String()
		}),
	)
}

var vfC19StrPieces = []string{
	"", "a", "hello", " ", "\"", "\\", "/", "\\u0041", "\n", "\t", "\r", "\b", "\f", "\x00", "\x01", "\x1f", "\x7f",
	"\u00e9", "\u00dcn\u00ef", "\u65e5\u672c\u8a9e", "\U0001F600", "\U0001D11E", "\U0010FFFF", "\u2028", "\u2029", "\ufeff", "\ufffd", "\u00ad", "\ud7ff", "\ue000", "\uffff",
	"<>&", "</script>", "%s", "{{.keyspace}}", "_id", "\"_id\"", "_attachments", "_exp", "_deleted", "\"_sync\":", "}", "{", ",", ":", "null", "1e400",
}

func vfC19GenString() *rapid.Generator[string] {
	return rapid.Custom(func(t *rapid.T) string {
		n := rapid.IntRange(0, 4).Draw(t, "pieces")
		var b strings.Builder
		for i := 0; i < n; i++ {
			b.WriteString(rapid.SampledFrom(vfC19StrPieces).Draw(t, "piece"))
		}
		return b.String()
	})
}

// key pools. Top-level keys never use a reserved name (those are generated deliberately by the
// reserved-property check); nested keys may.
var vfC19TopKeys = []string{
	"", "a", "b", "c", "key", "n", "Ünï", "日本", "😀", "quo\"te", "back\\slash", "sl/ash", "tab\tkey", "nul\x00key", " ", "line\nbreak",
	"_foo", "_", "__", "_ID", "_Rev", "_attachment", "_syncx", "id", "rev", "sync", "$", "a.b", "a b", "\x7f", "kéy",
}

var vfC19NestedKeys = append([]string{
	"_id", "_rev", "_deleted", "_attachments", "_revisions", "_exp", "_sync", "_removed", "_purged", "_cv", "_sync_x",
}, vfC19TopKeys...)

type vfC19GenCfg struct {
	MaxDepth    int
	NoHugeFloat bool // leave out literals outside the float64 range (DESIGN §5a item 15)
}

func vfC19GenKeys(t *rapid.T, pool []string, max int) []string {
	n := rapid.IntRange(0, max).Draw(t, "nkeys")
	seen := map[string]bool{}
	var out []string
	for i := 0; i < n; i++ {
		var k string
		if rapid.IntRange(0, 5).Draw(t, "keysrc") == 0 {
			k = vfC19GenString().Draw(t, "keystr")
		} else {
			k = rapid.SampledFrom(pool).Draw(t, "key")
		}
		if seen[k] {
			continue
		}
		seen[k] = true
		out = append(out, k)
	}
	return out
}

func vfC19TopKeyOK(k string) bool {
	if !strings.HasPrefix(k, "_") {
		return true
	}
	switch k {
	case "_id", "_rev", "_deleted", "_attachments", "_revisions", "_exp", "_sync", "_removed", "_purged", "_cv":
		return false
	}
	return !strings.HasPrefix(k, "_sync_")
}

// vfC19GenBody draws a document body: a top-level object.
func vfC19GenBody(t *rapid.T, cfg vfC19GenCfg) *vfC19Val {
	o := vfC19Obj()
	for _, k := range vfC19GenKeys(t, vfC19TopKeys, 6) {
		if !vfC19TopKeyOK(k) {
			continue
		}
		o.Set(k, vfC19GenValue(t, cfg, 1))
	}
	return o
}

func vfC19GenValue(t *rapid.T, cfg vfC19GenCfg, depth int) *vfC19Val {
	max := 9
	if depth >= cfg.MaxDepth {
		max = 6 // scalars and empty containers only
	}
	switch rapid.IntRange(0, max).Draw(t, "kind") {
	case 0, 1:
		lit := vfC19GenNumber().Draw(t, "num")
		if cfg.NoHugeFloat && vfC19OutOfFloatRange(lit) {
			lit = "9007199254740993"
		}
		return vfC19Num(lit)
	case 2:
		return vfC19Str(vfC19GenString().Draw(t, "str"))
	case 3:
		switch rapid.IntRange(0, 2).Draw(t, "lit") {
		case 0:
			return &vfC19Val{Kind: 't'}
		case 1:
			return &vfC19Val{Kind: 'f'}
		}
		return &vfC19Val{Kind: 'z'}
	case 4:
		return vfC19Obj()
	case 5:
		return &vfC19Val{Kind: 'a'}
	case 6:
		return vfC19Num(rapid.SampledFrom(vfC19NumPool).Draw(t, "poolnum")).fixHuge(cfg)
	case 7, 8:
		o := vfC19Obj()
		for _, k := range vfC19GenKeys(t, vfC19NestedKeys, 4) {
			o.Set(k, vfC19GenValue(t, cfg, depth+1))
		}
		return o
	default:
		a := &vfC19Val{Kind: 'a'}
		n := rapid.IntRange(1, 4).Draw(t, "alen")
		for i := 0; i < n; i++ {
			a.Vals = append(a.Vals, vfC19GenValue(t, cfg, depth+1))
		}
		return a
	}
}

func (v *vfC19Val) fixHuge(cfg vfC19GenCfg) *vfC19Val {
	if cfg.NoHugeFloat && v.Kind == 'n' && vfC19OutOfFloatRange(v.Str) {
		v.Str = "-9007199254740993"
	}
	return v
}

// vfC19Features summarises what makes a body interesting for the non-trivial rule and the class
// counters.
type vfC19Features struct {
	NonFloat   bool // a number literal a float64 does not hold exactly
	HugeFloat  bool // a literal outside the float64 range
	BigInt     bool // an integer literal beyond 2^53
	NonASCII   bool
	Control    bool // a control character or U+2028/2029 in a key or string
	ReservedIn bool // a reserved name used as nested key
	Underscore bool // a top-level key with a leading underscore
	EmptyKey   bool
	Depth      int
	EmptyCont  bool
}

func vfC19Scan(v *vfC19Val, depth int, top bool, f *vfC19Features) {
	if depth > f.Depth {
		f.Depth = depth
	}
	str := func(s string) {
		for _, r := range s {
			if r > 0x7f {
				f.NonASCII = true
			}
			if r < 0x20 || r == 0x2028 || r == 0x2029 || r == 0x7f {
				f.Control = true
			}
		}
	}
	switch v.Kind {
	case 'n':
		if !vfC19Float64Exact(v.Str) {
			f.NonFloat = true
		}
		if vfC19OutOfFloatRange(v.Str) {
			f.HugeFloat = true
		}
		if r, ok := vfC19Rat(v.Str); ok && r.IsInt() && new(big.Int).Abs(r.Num()).Cmp(new(big.Int).Lsh(big.NewInt(1), 53)) > 0 {
			f.BigInt = true
		}
	case 's':
		str(v.Str)
	case 'a':
		if len(v.Vals) == 0 {
			f.EmptyCont = true
		}
		for _, x := range v.Vals {
			vfC19Scan(x, depth+1, false, f)
		}
	case 'o':
		if len(v.Keys) == 0 && !top {
			f.EmptyCont = true
		}
		for i, k := range v.Keys {
			str(k)
			if k == "" {
				f.EmptyKey = true
			}
			if top && strings.HasPrefix(k, "_") {
				f.Underscore = true
			}
			if !top && !vfC19TopKeyOK(k) {
				f.ReservedIn = true
			}
			vfC19Scan(v.Vals[i], depth+1, false, f)
		}
	}
}

func (f vfC19Features) Classes() []string {
	var c []string
	add := func(b bool, s string) {
		if b {
			c = append(c, "body:"+s)
		}
	}
	add(f.NonFloat, "non-float64-number")
	add(f.HugeFloat, "out-of-float-range")
	add(f.BigInt, "int>2^53")
	add(f.NonASCII, "non-ascii")
	add(f.Control, "control-char")
	add(f.ReservedIn, "nested-reserved-key")
	add(f.Underscore, "top-underscore-key")
	add(f.EmptyKey, "empty-key")
	add(f.EmptyCont, "empty-container")
	c = append(c, fmt.Sprintf("body:depth=%d", f.Depth))
	return c
}

// ---------------------------------------------------------------------------------------------
// self-test of decoder + comparator

// vfC19Mutate changes exactly one leaf (or the shape) so that the value is different.
func vfC19Mutate(t *rapid.T, v *vfC19Val) *vfC19Val {
	c := *v
	switch v.Kind {
	case 'n':
		r, _ := vfC19Rat(v.Str)
		// the nearest different literal: add 1 to the last digit position of the integer form
		if r != nil && r.IsInt() {
			c.Str = new(big.Int).Add(r.Num(), big.NewInt(1)).String()
		} else {
			c.Str = "0"
			if r != nil && r.Sign() == 0 {
				c.Str = "1"
			}
		}
	case 's':
		c.Str = v.Str + "x"
	case 't':
		c.Kind = 'f'
	case 'f':
		c.Kind = 'z'
	case 'z':
		c.Kind = 't'
	case 'a':
		if len(v.Vals) == 0 {
			c.Vals = []*vfC19Val{{Kind: 'z'}}
		} else {
			i := rapid.IntRange(0, len(v.Vals)-1).Draw(t, "mi")
			c.Vals = append([]*vfC19Val{}, v.Vals...)
			if rapid.Bool().Draw(t, "drop") {
				c.Vals = append(c.Vals[:i], c.Vals[i+1:]...)
			} else {
				c.Vals[i] = vfC19Mutate(t, v.Vals[i])
			}
		}
	case 'o':
		if len(v.Keys) == 0 {
			c.Keys, c.Vals = []string{"zz"}, []*vfC19Val{{Kind: 'z'}}
		} else {
			i := rapid.IntRange(0, len(v.Keys)-1).Draw(t, "mi")
			c.Keys = append([]string{}, v.Keys...)
			c.Vals = append([]*vfC19Val{}, v.Vals...)
			switch rapid.IntRange(0, 2).Draw(t, "how") {
			case 0:
				c.Keys = append(c.Keys[:i], c.Keys[i+1:]...)
				c.Vals = append(c.Vals[:i], c.Vals[i+1:]...)
			case 1:
				c.Keys[i] = c.Keys[i] + "\u0000z"
			default:
				c.Vals[i] = vfC19Mutate(t, v.Vals[i])
			}
		}
	}
	return &c
}

// TestVerif_C19_SelfTest checks the harness's own decoder and comparator: two different
// serialisations of one generated value decode to equal values; Go's own decoder agrees on the
// string content; a one-leaf mutation is reported as different; numerically equal literals in
// different notations are equal; the duplicate scanner finds a planted duplicate.
func TestVerif_C19_SelfTest(t *testing.T) {
	rec := kit.New("C19", "SelfTest")
	defer rec.Flush()
	rapid.Check(t, func(rt *rapid.T) {
		v := vfC19GenBody(rt, vfC19GenCfg{MaxDepth: 6})
		s1, _ := vfC19Ser(v, vfC19GenStyle(rt))
		s2, esc := vfC19Ser(v, vfC19GenStyle(rt))
		render := s1
		fail := func(f string, a ...any) { kit.Violation(rt, "C19", "SelfTest", render, "harness self-test: "+f, a...) }
		if !utf8.ValidString(s1) || !json.Valid([]byte(s1)) || !json.Valid([]byte(s2)) {
			fail("serialiser produced invalid JSON: %q / %q", s1, s2)
		}
		d1, err := vfC19Decode([]byte(s1))
		if err != nil {
			fail("decode 1: %v", err)
		}
		d2, err := vfC19Decode([]byte(s2))
		if err != nil {
			fail("decode 2: %v", err)
		}
		if d := vfC19Equal(d1, d2); d != "" {
			fail("two serialisations differ: %s\n%s\n%s", d, s1, s2)
		}
		if d := vfC19Equal(v, d1); d != "" {
			fail("decode(ser(v)) != v: %s", d)
		}
		// independent cross-check with Go's map decoder: canonical re-encoding of both texts is identical
		var m1, m2 any
		dd := json.NewDecoder(strings.NewReader(s1))
		dd.UseNumber()
		_ = dd.Decode(&m1)
		dd = json.NewDecoder(strings.NewReader(s2))
		dd.UseNumber()
		_ = dd.Decode(&m2)
		if len(v.Keys) == len(m1.(map[string]any)) { // no information lost in the map form
			for i, k := range v.Keys {
				got, ok := m1.(map[string]any)[k]
				if !ok {
					fail("Go decoder does not see key %q", k)
				}
				if v.Vals[i].Kind == 's' && got != v.Vals[i].Str {
					fail("Go decoder reads key %q as %q, generator meant %q", k, got, v.Vals[i].Str)
				}
			}
		}
		mut := vfC19Mutate(rt, v)
		sm, _ := vfC19Ser(mut, vfC19GenStyle(rt))
		dm, err := vfC19Decode([]byte(sm))
		if err != nil {
			fail("decode of mutated value: %v (%s)", err, sm)
		}
		if d := vfC19Equal(d1, dm); d == "" {
			fail("mutation not detected: %s vs %s", s1, sm)
		}
		// number notations
		lit := vfC19GenNumber().Draw(rt, "lit")
		r, ok := vfC19Rat(lit)
		if !ok {
			fail("generated literal %q not parsable", lit)
		}
		alt := lit + "e0"
		if strings.ContainsAny(lit, "eE") {
			alt = lit
		}
		shifted := ""
		if !strings.ContainsAny(lit, "eE.") && !strings.HasPrefix(strings.TrimPrefix(lit, "-"), "0") {
			shifted = lit + "0e-1"
		}
		for _, a := range []string{alt, shifted} {
			if a == "" {
				continue
			}
			if d := vfC19Equal(vfC19Num(lit), vfC19Num(a)); d != "" {
				fail("equal numbers reported different: %s", d)
			}
		}
		plus := new(big.Rat).Add(r, big.NewRat(1, 1000000))
		if d := vfC19Equal(vfC19Num(lit), vfC19Num(plus.FloatString(60))); d == "" && !strings.ContainsAny(lit, "eE") {
			fail("numbers %s and %s reported equal", lit, plus.FloatString(60))
		}
		// duplicate scanner
		if len(v.Keys) > 0 {
			dupText := `{"w":` + s1 + `,"d":{"k":1,"k":1.0,"q":[{"z":"a","z":"b"}]}}`
			dv, err := vfC19Decode([]byte(dupText))
			if err != nil {
				fail("decode dup text: %v", err)
			}
			var dups []string
			vfC19DupKeys("$", dv, &dups)
			if len(dups) != 1 || !strings.Contains(dups[0], `"z"`) {
				fail("duplicate scanner reported %v on %s", dups, dupText)
			}
		}
		var f vfC19Features
		vfC19Scan(v, 0, true, &f)
		rec.Case(vfC19Canon(v), f.NonFloat || esc, f.Classes()...)
	})
}
