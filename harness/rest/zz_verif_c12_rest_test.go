package rest

// C12 (REST clause): the same credential/session histories driven through the admin API, observed as
// 200 vs 401 of a public request (checkPublicAuth). Thorough tier only.

import (
	"encoding/json"
	"fmt"
	"net/http"
	"strings"
	"sync/atomic"
	"testing"

	kit "github.com/couchbase/sync_gateway/verifkit"
	"pgregory.net/rapid"
)

const vfC12RestSigDisabledSession = "disabled-user-authenticates-with-earlier-session"

var vfC12RestCaseSeq atomic.Int64

type vfC12RestUser struct {
	name, label      string
	exists, disabled bool
	pw               string
	prev             []string
	epoch, change    int
}

type vfC12RestSession struct {
	id            string
	user          int
	epoch, change int
	alive         bool
}

func TestVerif_C12_Rest(t *testing.T) {
	rec := kit.New("C12", "Rest")
	defer rec.Flush()
	rt := NewRestTester(t, nil)
	defer rt.Close()
	_ = rt.GetDatabase()
	pwGen := rapid.OneOf(
		rapid.SampledFrom([]string{"password", "Password", "pass word", "pässword", "pässword", "letmein", "pw1", "pw2", "a:b", "abc"}),
		rapid.StringMatching(`[a-zA-Z0-9 !@#:éß]{3,10}`),
	)
	rapid.Check(t, func(t *rapid.T) {
		n := vfC12RestCaseSeq.Add(1)
		var users []*vfC12RestUser
		for _, l := range []string{"alice", "Alice", "bob"} {
			users = append(users, &vfC12RestUser{name: fmt.Sprintf("r%d%s", n, l), label: l})
		}
		var sessions []*vfC12RestSession
		var ops []string
		render := func() string { return strings.Join(ops, "; ") }
		oldSession, oldCred := false, false
		classes := map[string]int{}
		excluded := 0
		admin := func(method, path, body string, want ...int) *TestResponse {
			resp := rt.SendAdminRequest(method, path, body)
			for _, w := range want {
				if resp.Code == w {
					return resp
				}
			}
			t.Fatalf("harness: %s %s %s answered %d (%s); case: %s", method, path, body, resp.Code, resp.Body.String(), render())
			return nil
		}
		pick := func(existing bool) *vfC12RestUser {
			var c []*vfC12RestUser
			for _, u := range users {
				if u.exists == existing {
					c = append(c, u)
				}
			}
			if len(c) == 0 {
				t.Skip("no such user")
			}
			return rapid.SampledFrom(c).Draw(t, "user")
		}
		put := func(u *vfC12RestUser, fields map[string]any) {
			b, _ := json.Marshal(fields)
			admin(http.MethodPut, "/{{.db}}/_user/"+u.name, string(b), 200, 201)
		}
		create := func() {
			u := pick(false)
			pw := pwGen.Draw(t, "pw")
			put(u, map[string]any{"password": pw})
			u.exists, u.disabled, u.pw = true, false, pw
			u.epoch++
			u.change++
			ops = append(ops, fmt.Sprintf("create(%s,%q)", u.label, pw))
		}
		kit.Guard(t, "C12", "Rest", render, func() {
			create()
			t.Repeat(map[string]func(*rapid.T){
				"create": func(*rapid.T) { create() },
				"delete": func(*rapid.T) {
					u := pick(true)
					admin(http.MethodDelete, "/{{.db}}/_user/"+u.name, "", 200)
					u.exists = false
					u.prev = append(u.prev, u.pw)
					ops = append(ops, fmt.Sprintf("delete(%s)", u.label))
				},
				"setPassword": func(*rapid.T) {
					u := pick(true)
					pw := u.pw
					if rapid.IntRange(0, 3).Draw(t, "same") > 0 {
						pw = pwGen.Draw(t, "pw")
					}
					put(u, map[string]any{"password": pw})
					u.epoch++
					if pw != u.pw {
						u.change++
						u.prev = append(u.prev, u.pw)
						u.pw = pw
					}
					ops = append(ops, fmt.Sprintf("setPassword(%s,%q)", u.label, pw))
				},
				"setDisabled": func(*rapid.T) {
					u := pick(true)
					d := !u.disabled
					put(u, map[string]any{"disabled": d})
					u.disabled = d
					ops = append(ops, fmt.Sprintf("setDisabled(%s,%v)", u.label, d))
				},
				"createSession": func(*rapid.T) {
					u := pick(true)
					resp := rt.SendAdminRequest(http.MethodPost, "/{{.db}}/_session", fmt.Sprintf(`{"name":%q,"ttl":3600}`, u.name))
					if resp.Code != 200 {
						ops = append(ops, fmt.Sprintf("createSession(%s)=refused %d", u.label, resp.Code))
						return
					}
					var body struct {
						SessionID string `json:"session_id"`
					}
					if err := json.Unmarshal(resp.Body.Bytes(), &body); err != nil || body.SessionID == "" {
						t.Fatalf("harness: session response %s", resp.Body.String())
					}
					idx := 0
					for i := range users {
						if users[i] == u {
							idx = i
						}
					}
					sessions = append(sessions, &vfC12RestSession{id: body.SessionID, user: idx, epoch: u.epoch, change: u.change, alive: true})
					ops = append(ops, fmt.Sprintf("createSession(%s)=s%d", u.label, len(sessions)-1))
				},
				"deleteSession": func(*rapid.T) {
					if len(sessions) == 0 {
						t.Skip("no session")
					}
					i := rapid.IntRange(0, len(sessions)-1).Draw(t, "session")
					admin(http.MethodDelete, "/{{.db}}/_session/"+sessions[i].id, "", 200, 404)
					sessions[i].alive = false
					ops = append(ops, fmt.Sprintf("deleteSession(s%d)", i))
				},
				"basicAuth": func(*rapid.T) {
					u := rapid.SampledFrom(users).Draw(t, "user")
					attempt := u.pw
					switch rapid.SampledFrom([]string{"current", "current", "previous", "wrong", "empty", "case", "space"}).Draw(t, "kind") {
					case "previous":
						if len(u.prev) > 0 {
							attempt = rapid.SampledFrom(u.prev).Draw(t, "prev")
						} else {
							attempt = "never-a-password"
						}
					case "wrong":
						attempt = u.pw + "x"
					case "empty":
						attempt = ""
					case "case":
						attempt = strings.ToUpper(u.pw)
					case "space":
						attempt = u.pw + " "
					}
					resp := rt.SendUserRequestWithHeaders(http.MethodGet, "/{{.db}}/", "", nil, u.name, attempt)
					ok := resp.Code == 200
					want := u.exists && !u.disabled && u.pw != "" && attempt == u.pw
					ops = append(ops, fmt.Sprintf("basicAuth(%s,%q)=%d", u.label, attempt, resp.Code))
					if ok && !want {
						kit.Violation(t, "C12", "Rest", render(), "GET /db/ as %s with password %q answered 200 (exists=%v disabled=%v current=%q)", u.label, attempt, u.exists, u.disabled, u.pw)
					}
					if !ok && want {
						kit.Violation(t, "C12", "Rest", render(), "GET /db/ as %s with the current password answered %d", u.label, resp.Code)
					}
					if !ok && resp.Code != 401 {
						kit.Violation(t, "C12", "Rest", render(), "failed authentication answered %d, not 401", resp.Code)
					}
					if u.exists && attempt != u.pw {
						for _, p := range u.prev {
							if p == attempt {
								oldCred = true
							}
						}
					}
					classes[fmt.Sprintf("basic_%d", resp.Code)]++
				},
				"cookieAuth": func(*rapid.T) {
					if len(sessions) == 0 {
						t.Skip("no session")
					}
					i := rapid.IntRange(0, len(sessions)-1).Draw(t, "session")
					s := sessions[i]
					u := users[s.user]
					resp := rt.SendRequestWithHeaders(http.MethodGet, "/{{.db}}/", "", map[string]string{"Cookie": "SyncGatewaySession=" + s.id})
					ok := resp.Code == 200
					ops = append(ops, fmt.Sprintf("cookieAuth(s%d)=%d", i, resp.Code))
					current := s.alive && u.exists && s.epoch == u.epoch
					mustFail := !s.alive || !u.exists || s.change != u.change
					switch {
					case ok && mustFail:
						kit.Violation(t, "C12", "Rest", render(), "session s%d of %s answered 200 (session alive=%v, user exists=%v, credential changes since issue=%d)", i, u.label, s.alive, u.exists, u.change-s.change)
					case ok && current && u.disabled:
						if !kit.Known("C12", vfC12RestSigDisabledSession) {
							kit.Violation(t, "C12", "Rest", render(), "session s%d answered 200 although its user %s is disabled", i, u.label)
						}
						excluded++
					case !ok && current && !u.disabled:
						kit.Violation(t, "C12", "Rest", render(), "live session s%d of enabled user %s answered %d", i, u.label, resp.Code)
					}
					if !ok && resp.Code != 401 {
						kit.Violation(t, "C12", "Rest", render(), "failed authentication answered %d, not 401", resp.Code)
					}
					if u.exists && s.alive && s.change != u.change {
						oldSession = true
					}
					classes[fmt.Sprintf("cookie_%d", resp.Code)]++
				},
			})
		})
		for ; excluded > 0; excluded-- {
			rec.Excluded(vfC12RestSigDisabledSession)
		}
		var cl []string
		for k, v := range classes {
			for ; v > 0; v-- {
				cl = append(cl, k)
			}
		}
		rec.Case(render(), oldSession || oldCred, cl...)
	})
}
