package rest

// C12 (REST clause): the same credential/session histories driven through the admin API, observed as
// 200 vs 401 of a public request (checkPublicAuth). Thorough tier only.

import (
	"encoding/json"
	"fmt"
	"net/http"
	"strings"
	"sync/atomic"
	"testing"

	"github.com/couchbase/sync_gateway/base"
	kit "github.com/couchbase/sync_gateway/verifkit"
	"pgregory.net/rapid"
)

const vfC12RestSigDisabledSession = "disabled-user-authenticates-with-earlier-session"

var vfC12RestCaseSeq atomic.Int64

type vfC12RestUser struct {
	name, label      string
	exists, disabled bool
	pw               string
	prev             []string
	epoch, change    int
}

type vfC12RestSession struct {
	id            string
	user          int
	epoch, change int
	alive         bool
}

func TestVerif_C12_Rest(t *testing.T) {
	rec := kit.New("C12", "Rest")
	defer rec.Flush()
	rt := NewRestTester(t, nil)
	defer rt.Close()
	_ = rt.GetDatabase()
	pwGen := rapid.OneOf(
		rapid.SampledFrom([]string{"password", "Password", "pass word", "pässword", "pässword", "letmein", "pw1", "pw2", "a:b", "abc"}),
		rapid.StringMatching(`[a-zA-Z0-9 !@#:éß]{3,10}`),
	)
	rapid.Check(t, func(t *rapid.T) {
		n := vfC12RestCaseSeq.Add(1)
		var users []*vfC12RestUser
		for _, l := range []string{"alice", "Alice", "bob"} {
			users = append(users, &vfC12RestUser{name: fmt.Sprintf("r%d%s", n, l), label: l})
		}
		var sessions []*vfC12RestSession
		var ops []string
		render := func() string { return strings.Join(ops, "; ") }
		oldSession, oldCred := false, false
		classes := map[string]int{}
		excluded := 0
		admin := func(method, path, body string, want ...int) *TestResponse {
			resp := rt.SendAdminRequest(method, path, body)
			for _, w := range want {
				if resp.Code == w {
					return resp
				}
			}
			t.Fatalf("harness: %s %s %s answered %d (%s); case: %s", method, path, body, resp.Code, resp.Body.String(), render())
			return nil
		}
		pick := func(existing bool) *vfC12RestUser {
			var c []*vfC12RestUser
			for _, u := range users {
				if u.exists == existing {
					c = append(c, u)
				}
			}
			if len(c) == 0 {
				t.Skip("no such user")
			}
			return rapid.SampledFrom(c).Draw(t, "user")
		}
		put := func(u *vfC12RestUser, fields map[string]any) {
			b, _ := json.Marshal(fields)
			admin(http.MethodPut, "/{{.db}}/_user/"+u.name, string(b), 200, 201)
		}
		create := func() {
			u := pick(false)
			pw := pwGen.Draw(t, "pw")
			put(u, map[string]any{"password": pw})
			u.exists, u.disabled, u.pw = true, false, pw
			u.epoch++
			u.change++
			ops = append(ops, fmt.Sprintf("create(%s,%q)", u.label, pw))
		}
		kit.Guard(t, "C12", "Rest", render, func() {
			create()
			t.Repeat(map[string]func(*rapid.T){
				"create": func(*rapid.T) { create() },
				"delete": func(*rapid.T) {
					u := pick(true)
					admin(http.MethodDelete, "/{{.db}}/_user/"+u.name, "", 200)
					u.exists = false
					u.prev = append(u.prev, u.pw)
					ops = append(ops, fmt.Sprintf("delete(%s)", u.label))
				},
				"setPassword": func(*rapid.T) {
					u := pick(true)
					pw := u.pw
					if rapid.IntRange(0, 3).Draw(t, "same") > 0 {
						pw = pwGen.Draw(t, "pw")
					}
					put(u, map[string]any{"password": pw})
					u.epoch++
					if pw != u.pw {
						u.change++
						u.prev = append(u.prev, u.pw)
						u.pw = pw
					}
					ops = append(ops, fmt.Sprintf("setPassword(%s,%q)", u.label, pw))
				},
				"setDisabled": func(*rapid.T) {
					u := pick(true)
					d := !u.disabled
					put(u, map[string]any{"disabled": d})
					u.disabled = d
					ops = append(ops, fmt.Sprintf("setDisabled(%s,%v)", u.label, d))
				},
				"createSession": func(*rapid.T) {
					u := pick(true)
					resp := rt.SendAdminRequest(http.MethodPost, "/{{.db}}/_session", fmt.Sprintf(`{"name":%q,"ttl":3600}`, u.name))
					if resp.Code != 200 {
						ops = append(ops, fmt.Sprintf("createSession(%s)=refused %d", u.label, resp.Code))
						return
					}
					var body struct {
						SessionID string `json:"session_id"`
					}
					if err := json.Unmarshal(resp.Body.Bytes(), &body); err != nil || body.SessionID == "" {
						t.Fatalf("harness: session response %s", resp.Body.String())
					}
					idx := 0
					for i := range users {
						if users[i] == u {
							idx = i
						}
					}
					sessions = append(sessions, &vfC12RestSession{id: body.SessionID, user: idx, epoch: u.epoch, change: u.change, alive: true})
					ops = append(ops, fmt.Sprintf("createSession(%s)=s%d", u.label, len(sessions)-1))
				},
				"deleteSession": func(*rapid.T) {
					if len(sessions) == 0 {
						t.Skip("no session")
					}
					i := rapid.IntRange(0, len(sessions)-1).Draw(t, "session")
					admin(http.MethodDelete, "/{{.db}}/_session/"+sessions[i].id, "", 200, 404)
					sessions[i].alive = false
					ops = append(ops, fmt.Sprintf("deleteSession(s%d)", i))
				},
				"basicAuth": func(*rapid.T) {
					u := rapid.SampledFrom(users).Draw(t, "user")
					attempt := u.pw
					switch rapid.SampledFrom([]string{"current", "current", "previous", "wrong", "empty", "case", "space"}).Draw(t, "kind") {
					case "previous":
						if len(u.prev) > 0 {
							attempt = rapid.SampledFrom(u.prev).Draw(t, "prev")
						} else {
							attempt = "never-a-password"
						}
					case "wrong":
						attempt = u.pw + "x"
					case "empty":
						attempt = ""
					case "case":
						attempt = strings.ToUpper(u.pw)
					case "space":
						attempt = u.pw + " "
					}
					resp := rt.SendUserRequestWithHeaders(http.MethodGet, "/{{.db}}/", "", nil, u.name, attempt)
					ok := resp.Code == 200
					want := u.exists && !u.disabled && u.pw != "" && attempt == u.pw
					ops = append(ops, fmt.Sprintf("basicAuth(%s,%q)=%d", u.label, attempt, resp.Code))
					if ok && !want {
						kit.Violation(t, "C12", "Rest", render(), "GET /db/ as %s with password %q answered 200 (exists=%v disabled=%v current=%q)", u.label, attempt, u.exists, u.disabled, u.pw)
					}
					if !ok && want {
						kit.Violation(t, "C12", "Rest", render(), "GET /db/ as %s with the current password answered %d", u.label, resp.Code)
					}
					if !ok && resp.Code != 401 {
						kit.Violation(t, "C12", "Rest", render(), "failed authentication answered %d, not 401", resp.Code)
					}
					if u.exists && attempt != u.pw {
						for _, p := range u.prev {
							if p == attempt {
								oldCred = true
							}
						}
					}
					classes[fmt.Sprintf("basic_%d", resp.Code)]++
				},
				"cookieAuth": func(*rapid.T) {
					if len(sessions) == 0 {
						t.Skip("no session")
					}
					i := rapid.IntRange(0, len(sessions)-1).Draw(t, "session")
					s := sessions[i]
					u := users[s.user]
					resp := rt.SendRequestWithHeaders(http.MethodGet, "/{{.db}}/", "", map[string]string{"Cookie": "SyncGatewaySession=" + s.id})
					ok := resp.Code == 200
					ops = append(ops, fmt.Sprintf("cookieAuth(s%d)=%d", i, resp.Code))
					current := s.alive && u.exists && s.epoch == u.epoch
					mustFail := !s.alive || !u.exists || s.change != u.change
					switch {
					case ok && mustFail:
						kit.Violation(t, "C12", "Rest", render(), "session s%d of %s answered 200 (session alive=%v, user exists=%v, credential changes since issue=%d)", i, u.label, s.alive, u.exists, u.change-s.change)
					case ok && current && u.disabled:
						if !kit.Known("C12", vfC12RestSigDisabledSession) {
							kit.Violation(t, "C12", "Rest", render(), "session s%d answered 200 although its user %s is disabled", i, u.label)
						}
						excluded++
					case !ok && current && !u.disabled:
						kit.Violation(t, "C12", "Rest", render(), "live session s%d of enabled user %s answered %d", i, u.label, resp.Code)
					}
					if !ok && resp.Code != 401 {
						kit.Violation(t, "C12", "Rest", render(), "failed authentication answered %d, not 401", resp.Code)
					}
					if u.exists && s.alive && s.change != u.change {
						oldSession = true
					}
					classes[fmt.Sprintf("cookie_%d", resp.Code)]++
				},
			})
		})
		for ; excluded > 0; excluded-- {
			rec.Excluded(vfC12RestSigDisabledSession)
		}
		var cl []string
		for k, v := range classes {
			for ; v > 0; v-- {
				cl = append(cl, k)
			}
		}
		rec.Case(render(), oldSession || oldCred, cl...)
	})
}

// ---------------------------------------------------------------------------------------------------------------
// DelSessions (quick + thorough): the admin endpoint "delete all sessions of the user"
// (DELETE /{db}/_user/{name}/_session) in generated histories over 1-2 users, in a generated fraction of cases with a
// concurrent admin update of the same user document committed immediately before the handler's CAS write of the user
// document (one-shot hook on the leaky bucket's WriteCas, keyed on the user's document key). The harness repeats the
// DELETE while it is refused with 409. Oracle from the statement ("deleted sessions never authenticate"): once a
// delete-all-sessions request has been acknowledged with 200, every session of that user created before it answers
// 401; sessions created afterwards, and the other user's sessions, answer 200; a session deleted singly or issued
// before a password change answers 401.

type vfC12DelUser struct {
	name, label string
	gen         int // acknowledged delete-all-sessions requests + password changes so far
	pwN         int
	chN         int
}

type vfC12DelSession struct {
	id      string
	user    int
	gen     int
	alive   bool
	afterDA bool // issued before an acknowledged delete-all of its user
}

func TestVerif_C12_DeleteAllSessions(ot *testing.T) {
	rec := kit.New("C12", "DeleteAllSessions")
	defer rec.Flush()
	rapid.Check(ot, func(t *rapid.T) {
		var (
			tester    *RestTester
			armedKey  atomic.Pointer[string]
			injecting atomic.Bool
			injectFn  func() error
			injected  int
			injectErr error
		)
		hook := func(key string) (uint64, error) {
			k := armedKey.Load()
			if k == nil || *k != key {
				return 0, nil
			}
			if !injecting.CompareAndSwap(false, true) {
				return 0, nil // the injected writer's own CAS write
			}
			defer injecting.Store(false)
			armedKey.Store(nil) // one shot
			if err := injectFn(); err != nil {
				injectErr = err
				return 0, nil
			}
			injected++
			return 0, nil
		}
		tester = NewRestTester(ot, &RestTesterConfig{
			LeakyBucketConfig: &base.LeakyBucketConfig{WriteCasCallback: hook},
		})
		defer tester.Close()
		metaKeys := tester.GetDatabase().MetadataKeys

		var ops []string
		render := func() string { return strings.Join(ops, "; ") }
		classes := []string{}
		nontrivial := false
		inconclusive := func(format string, args ...any) {
			rec.Inconclusive()
			kit.InconclusiveLine("C12", "DeleteAllSessions: "+format+"; case: %s", append(args, render())...)
			t.Skip("inconclusive")
		}
		adminPut := func(u *vfC12DelUser, body string) error {
			resp := tester.SendAdminRequest(http.MethodPut, "/{{.db}}/_user/"+u.name, body)
			if resp.Code != 200 && resp.Code != 201 {
				return fmt.Errorf("PUT _user/%s %s answered %d: %s", u.label, body, resp.Code, resp.Body.String())
			}
			return nil
		}

		nUsers := rapid.IntRange(1, 2).Draw(t, "users")
		var users []*vfC12DelUser
		for i := 0; i < nUsers; i++ {
			u := &vfC12DelUser{name: fmt.Sprintf("vfdel%c", 'a'+i), label: fmt.Sprintf("u%d", i)}
			users = append(users, u)
		}
		var sessions []*vfC12DelSession

		kit.Guard(t, "C12", "DeleteAllSessions", render, func() {
			for _, u := range users {
				if err := adminPut(u, `{"password":"pw0-`+u.label+`"}`); err != nil {
					inconclusive("create user: %v", err)
				}
				ops = append(ops, "create("+u.label+")")
			}
			createSession := func(ui int) {
				u := users[ui]
				resp := tester.SendAdminRequest(http.MethodPost, "/{{.db}}/_session", fmt.Sprintf(`{"name":%q,"ttl":3600}`, u.name))
				var body struct {
					SessionID string `json:"session_id"`
				}
				if resp.Code != 200 || json.Unmarshal(resp.Body.Bytes(), &body) != nil || body.SessionID == "" {
					inconclusive("create session for %s answered %d: %s", u.label, resp.Code, resp.Body.String())
				}
				sessions = append(sessions, &vfC12DelSession{id: body.SessionID, user: ui, gen: u.gen, alive: true})
				ops = append(ops, fmt.Sprintf("createSession(%s)=s%d", u.label, len(sessions)-1))
			}
			present := func(i int) {
				s := sessions[i]
				u := users[s.user]
				resp := tester.SendRequestWithHeaders(http.MethodGet, "/{{.db}}/", "", map[string]string{"Cookie": "SyncGatewaySession=" + s.id})
				ops = append(ops, fmt.Sprintf("cookieAuth(s%d)=%d", i, resp.Code))
				mustFail := !s.alive || s.gen != u.gen
				switch {
				case resp.Code == 200 && mustFail && s.afterDA:
					kit.Violation(t, "C12", "DeleteAllSessions", render(), "session s%d of %s was issued before a delete-all-sessions request that was acknowledged with 200, but still authenticates (GET /db/ answered 200)", i, u.label)
				case resp.Code == 200 && mustFail:
					kit.Violation(t, "C12", "DeleteAllSessions", render(), "session s%d of %s answered 200 (session deleted=%v, issued before a password change=%v)", i, u.label, !s.alive, s.gen != u.gen)
				case resp.Code != 200 && !mustFail:
					kit.Violation(t, "C12", "DeleteAllSessions", render(), "live session s%d of %s (not deleted, issued after every delete-all-sessions / password change of its user) answered %d", i, u.label, resp.Code)
				case resp.Code != 200 && resp.Code != 401:
					kit.Violation(t, "C12", "DeleteAllSessions", render(), "failed authentication answered %d, not 401", resp.Code)
				}
				if s.afterDA {
					nontrivial = true
					classes = append(classes, "presented_after_delete_all")
				} else if vfC12DelAnyGen(users) {
					classes = append(classes, "unaffected_session_presented_after_a_delete_all")
				}
			}
			deleteAll := func(ui int) {
				u := users[ui]
				kind := rapid.SampledFrom([]string{"none", "none", "email", "channels", "disabled"}).Draw(t, "concurrent")
				injected, injectErr = 0, nil
				if kind != "none" {
					// Settle pending channel recomputation of the user first, so that the first CAS write of the user
					// document seen by the hook is the handler's write of the rotated session UUID.
					if resp := tester.SendAdminRequest(http.MethodGet, "/{{.db}}/_user/"+u.name, ""); resp.Code != 200 {
						inconclusive("GET _user/%s answered %d", u.label, resp.Code)
					}
					u.chN++
					n := u.chN
					injectFn = func() error {
						switch kind {
						case "email":
							return adminPut(u, fmt.Sprintf(`{"email":"%s%d@example.com"}`, u.name, n))
						case "channels":
							return adminPut(u, fmt.Sprintf(`{"admin_channels":["ch%d"]}`, n))
						default:
							if err := adminPut(u, `{"disabled":true}`); err != nil {
								return err
							}
							return adminPut(u, `{"disabled":false}`)
						}
					}
					key := metaKeys.UserKey(u.name)
					armedKey.Store(&key)
				}
				var codes []string
				acknowledged := false
				for attempt := 0; attempt < 4 && !acknowledged; attempt++ {
					resp := tester.SendAdminRequest(http.MethodDelete, "/{{.db}}/_user/"+u.name+"/_session", "")
					codes = append(codes, fmt.Sprint(resp.Code))
					acknowledged = resp.Code == 200
					if !acknowledged && resp.Code != 409 {
						armedKey.Store(nil)
						ops = append(ops, fmt.Sprintf("deleteAllSessions(%s,concurrent=%s)=%s", u.label, kind, strings.Join(codes, ",")))
						inconclusive("delete all sessions of %s answered %d: %s", u.label, resp.Code, resp.Body.String())
					}
				}
				armedKey.Store(nil)
				ops = append(ops, fmt.Sprintf("deleteAllSessions(%s,concurrent=%s,injected=%d)=%s", u.label, kind, injected, strings.Join(codes, ",")))
				if injectErr != nil {
					inconclusive("injected update: %v", injectErr)
				}
				if !acknowledged {
					inconclusive("delete all sessions of %s was never acknowledged", u.label)
				}
				u.gen++
				for _, s := range sessions {
					if s.user == ui {
						s.afterDA = true
					}
				}
				classes = append(classes, "delete_all")
				if injected > 0 {
					classes = append(classes, "concurrent_update_injected", "concurrent_"+kind)
				} else if kind != "none" {
					classes = append(classes, "concurrent_update_hook_not_reached")
				}
				if codes[0] == "409" {
					classes = append(classes, "delete_all_answered_409_first")
				}
			}

			for n := rapid.IntRange(1, 3).Draw(t, "initialSessions"); n > 0; n-- {
				createSession(0)
			}
			steps := rapid.SliceOfN(rapid.SampledFrom([]string{
				"session", "session", "deleteAll", "deleteAll", "deleteAll", "present", "present", "present", "deleteSession", "setPassword",
			}), 3, 10).Draw(t, "steps")
			for _, step := range steps {
				switch step {
				case "session":
					createSession(rapid.IntRange(0, nUsers-1).Draw(t, "user"))
				case "deleteAll":
					deleteAll(rapid.IntRange(0, nUsers-1).Draw(t, "user"))
				case "present":
					present(rapid.IntRange(0, len(sessions)-1).Draw(t, "session"))
				case "deleteSession":
					i := rapid.IntRange(0, len(sessions)-1).Draw(t, "session")
					s := sessions[i]
					path := "/{{.db}}/_session/" + s.id
					if rapid.Bool().Draw(t, "viaUser") {
						path = "/{{.db}}/_user/" + users[s.user].name + "/_session/" + s.id
					}
					resp := tester.SendAdminRequest(http.MethodDelete, path, "")
					ops = append(ops, fmt.Sprintf("deleteSession(s%d)=%d", i, resp.Code))
					if resp.Code == 200 {
						s.alive = false
					} else if s.alive && s.gen == users[s.user].gen {
						inconclusive("delete of live session s%d answered %d: %s", i, resp.Code, resp.Body.String())
					}
				case "setPassword":
					u := users[rapid.IntRange(0, nUsers-1).Draw(t, "user")]
					u.pwN++
					if err := adminPut(u, fmt.Sprintf(`{"password":"pw%d-%s"}`, u.pwN, u.label)); err != nil {
						inconclusive("set password: %v", err)
					}
					u.gen++
					ops = append(ops, "setPassword("+u.label+")")
					classes = append(classes, "password_change")
				}
			}
			for i := range sessions {
				present(i)
			}
		})
		rec.Case(render(), nontrivial, classes...)
	})
}

func vfC12DelAnyGen(users []*vfC12DelUser) bool {
	for _, u := range users {
		if u.gen > 0 {
			return true
		}
	}
	return false
}
