package rest

import (
	"fmt"
	"testing"

	"github.com/couchbase/sync_gateway/db"
)

func TestVerif_C02_Dbg(t *testing.T) {
	rt := NewRestTesterDefaultCollection(t, &RestTesterConfig{SyncFn: vfC02SyncFn})
	defer rt.Close()
	rt.GetDatabase().EnableAllowConflicts(t)
	w := &vfC02World{t: t, rt: rt, ks: rt.GetSingleKeyspace(), dbName: rt.GetDatabase().Name}
	ds := rt.GetSingleDataStore()
	w.send("", "PUT", "/"+w.dbName+"/_user/uA", GetUserPayload(t, "", RestTesterDefaultUserPassword, "", ds, []string{"A"}, nil), nil)
	base := "/" + w.ks
	show := func(what string, r vfC02Resp) { fmt.Printf("DBG %s => %d %s\n", what, r.Code, r.Body) }
	show("put1", w.send("", "PUT", base+"/x", `{"chan":["A"],"m":"rootA"}`, nil))
	show("root2", w.send("", "POST", base+"/_bulk_docs", `{"new_edits":false,"docs":[{"_id":"x","_rev":"1-5m002","_revisions":{"start":1,"ids":["5m002"]},"chan":["B"],"m":"SECRETB"}]}`, nil))
	show("uA get 1-5m002 (leaf)", w.send("uA", "GET", base+"/x?rev=1-5m002", "", nil))
	show("delete", w.send("", "DELETE", base+"/x?rev=1-5m002", "", nil))
	show("uA get 1-5m002 (asis)", w.send("uA", "GET", base+"/x?rev=1-5m002", "", nil))
	rt.GetDatabase().FlushRevisionCacheForTest()
	show("uA get 1-5m002 (cold)", w.send("uA", "GET", base+"/x?rev=1-5m002", "", nil))
	coll, ctx := rt.GetSingleTestDatabaseCollection()
	doc, _ := coll.GetDocument(ctx, "x", db.DocUnmarshalAll)
	for id, ri := range doc.History {
		fmt.Printf("DBG rev %s parent=%s deleted=%v channels=%v hasBody=%v\n", id, ri.Parent, ri.Deleted, ri.Channels, len(ri.Body) > 0)
	}
}
