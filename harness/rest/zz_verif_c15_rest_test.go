package rest

// C15 (REST-level variant, thorough tier): two gateway nodes (ServerContexts with persistent config)
// on one bucket; changes go through the admin API of node A, whose bootstrap connection may crash at
// a generated storage call; node B then polls (fetchAndLoadConfigs) and is observed through
// GET /_all_dbs and GET /{db}/_config (persisted and running config), and continues with changes.

import (
	"encoding/json"
	"fmt"
	"net/http"
	"sort"
	"strings"
	"testing"
	"time"

	"github.com/couchbase/sync_gateway/base"
	kit "github.com/couchbase/sync_gateway/verifkit"
	"pgregory.net/rapid"
)

type vfC15RestCfg struct {
	payload int
	colls   string // sorted, comma separated scope.collection
}

func TestVerif_C15_Rest(t *testing.T) {
	rec := kit.New("C15", "Rest")
	defer rec.Flush()
	ctx := base.TestCtx(t)
	rapid.Check(t, func(rt *rapid.T) {
		tb := base.GetTestBucket(t)
		defer tb.Close(ctx)
		names := tb.GetNonDefaultDatastoreNames()
		if len(names) < 3 {
			t.Skip("needs 3 collections")
		}
		scA, closeA := startBootstrapServerWithoutConfigPolling(t, false)
		defer closeA()
		scB, closeB := startBootstrapServerWithoutConfigPolling(t, false)
		defer closeB()
		connA := &vfC15Conn{BootstrapConnection: scA.BootstrapContext.Connection, dieAfter: -1}
		scA.BootstrapContext.Connection = connA
		scA.BootstrapContext.configRetryTimeout = time.Millisecond
		scB.BootstrapContext.configRetryTimeout = time.Millisecond
		group := scB.Config.Bootstrap.ConfigGroupID

		menu := [][]int{{0}, {1}, {0, 1}, {2}}
		collsOf := func(set int) string {
			var c []string
			for _, i := range menu[set] {
				c = append(c, names[i].ScopeName()+"."+names[i].CollectionName())
			}
			sort.Strings(c)
			return strings.Join(c, ",")
		}
		body := func(set, payload int) string {
			scopes := map[string]map[string]map[string]any{}
			for _, i := range menu[set] {
				s := names[i].ScopeName()
				if scopes[s] == nil {
					scopes[s] = map[string]map[string]any{"collections": {}}
				}
				scopes[s]["collections"][names[i].CollectionName()] = map[string]any{}
			}
			b, _ := json.Marshal(map[string]any{"bucket": tb.GetName(), "num_index_replicas": 0, "revs_limit": 1000 + payload, "scopes": scopes})
			return string(b)
		}
		dbNames := []string{"vfdba", "vfdbb"}
		allowed := map[string][]*vfC15RestCfg{} // nil element = absent
		for _, n := range dbNames {
			allowed[n] = []*vfC15RestCfg{nil}
		}
		var ops []string
		render := func() string { return strings.Join(ops, "; ") }
		fail := func(format string, args ...any) {
			kit.Violation(rt, "C15", "Rest", render(), format, args...)
		}
		interrupted, inside, followed := false, false, false

		rawRegistry := func() string {
			v, _, err := tb.DefaultDataStore(ctx).GetRaw(ctx, base.SGRegistryKey)
			if err != nil {
				return ""
			}
			return string(v)
		}
		// observe node B after it polled
		observe := func(what string) {
			if _, err := scB.fetchAndLoadConfigs(ctx, false); err != nil {
				ops = append(ops, "B.poll=error")
				fail("%s: node B cannot load the configurations: %v", what, err)
			}
			resp := BootstrapAdminRequest(t, scB, http.MethodGet, "/_all_dbs", "")
			var listed []string
			if resp.StatusCode() != 200 || json.Unmarshal([]byte(resp.Body), &listed) != nil {
				fail("%s: GET /_all_dbs answered %d %s", what, resp.StatusCode(), resp.Body)
			}
			sort.Strings(listed)
			var reg vfC15RegDoc
			regRaw := rawRegistry()
			if regRaw != "" {
				if err := json.Unmarshal([]byte(regRaw), &reg); err != nil {
					fail("registry is not valid JSON: %v", err)
				}
			}
			seen := map[string]*vfC15RestCfg{}
			owner := map[string]string{}
			for _, n := range listed {
				r := BootstrapAdminRequest(t, scB, http.MethodGet, "/"+n+"/_config", "")
				if r.StatusCode() != 200 {
					fail("%s: GET /%s/_config answered %d %s for a database listed by /_all_dbs", what, n, r.StatusCode(), r.Body)
				}
				var c struct {
					RevsLimit int `json:"revs_limit"`
					Scopes    map[string]struct {
						Collections map[string]any `json:"collections"`
					} `json:"scopes"`
				}
				if err := json.Unmarshal([]byte(r.Body), &c); err != nil {
					fail("%s: /%s/_config is not JSON: %v", what, n, err)
				}
				var cs []string
				for sn, sc := range c.Scopes {
					for cn := range sc.Collections {
						cs = append(cs, sn+"."+cn)
					}
				}
				sort.Strings(cs)
				seen[n] = &vfC15RestCfg{payload: c.RevsLimit - 1000, colls: strings.Join(cs, ",")}
				// version (ETag) must be the registry's
				etag := strings.Trim(r.response.Header.Get("ETag"), `"`)
				if g, ok := reg.ConfigGroups[group]; ok {
					if d, ok := g.Databases[n]; !ok || d.Version != etag {
						fail("%s: /%s/_config carries version %q, the registry records %+v\nregistry: %s", what, n, etag, d, regRaw)
					}
				} else {
					fail("%s: database %s is served but the registry has no entry for the config group\nregistry: %s", what, n, regRaw)
				}
				// what runs on the node is what was loaded (version and content)
				run := scB.GetDatabaseConfig(n)
				if run == nil || run.Version != etag || run.RevsLimit == nil || int(*run.RevsLimit) != c.RevsLimit {
					got := "nothing"
					if run != nil {
						got = fmt.Sprintf("version %s revs_limit %v", run.Version, base.ValDefault(run.RevsLimit, 0))
					}
					fail("%s: node B runs %s with %s, the persisted config is version %s revs_limit %d", what, n, got, etag, c.RevsLimit)
				}
				for _, col := range cs {
					if o, dup := owner[col]; dup {
						fail("%s: collection %s is served by two databases: %s and %s", what, col, o, n)
					}
					owner[col] = n
				}
			}
			var parts []string
			for _, n := range dbNames {
				s := seen[n]
				ok := false
				for _, a := range allowed[n] {
					ok = ok || (a == nil && s == nil) || (a != nil && s != nil && *a == *s)
				}
				txt := "absent"
				if s != nil {
					txt = fmt.Sprintf("p%d{%s}", s.payload, s.colls)
				}
				parts = append(parts, n+"="+txt)
				if !ok {
					ops = append(ops, "B.poll=["+strings.Join(parts, " ")+"]")
					fail("%s: node B serves %s = %s, neither the acknowledged nor an in-flight configuration", what, n, txt)
				}
				allowed[n] = []*vfC15RestCfg{s}
			}
			ops = append(ops, "B.poll=["+strings.Join(parts, " ")+"]")
		}
		valid := func(kind string, db string, set int) (bool, bool) {
			if len(allowed[db]) != 1 {
				return false, false
			}
			cur := allowed[db][0]
			switch kind {
			case "delete":
				return cur != nil, true
			case "create":
				if cur != nil {
					return false, true
				}
			case "update":
				if cur == nil {
					return false, true
				}
			}
			for _, o := range dbNames {
				if o == db {
					continue
				}
				for _, a := range allowed[o] {
					if a == nil {
						continue
					}
					for _, x := range strings.Split(collsOf(set), ",") {
						for _, y := range strings.Split(a.colls, ",") {
							if x == y {
								return false, len(allowed[o]) == 1
							}
						}
					}
				}
			}
			return true, true
		}
		do := func(sc *ServerContext, node, kind, db string, set, payload int) (status int) {
			defer func() {
				if status == http.StatusBadRequest {
					rt.Fatalf("harness: %s %s on node %s was rejected as malformed (400); case: %s", kind, db, node, render())
				}
			}()
			switch kind {
			case "create":
				r := BootstrapAdminRequest(t, sc, http.MethodPut, "/"+db+"/", body(set, payload))
				status = r.StatusCode()
				if status == http.StatusBadRequest {
					ops = append(ops, "400: "+r.Body)
				}
			case "update":
				r := BootstrapAdminRequest(t, sc, http.MethodPut, "/"+db+"/_config", body(set, payload))
				status = r.StatusCode()
			case "delete":
				r := BootstrapAdminRequest(t, sc, http.MethodDelete, "/"+db+"/", "")
				status = r.StatusCode()
			}
			return status
		}
		genOp := func(i int) (string, string, int, int) {
			db := rapid.SampledFrom(dbNames).Draw(rt, "db")
			kinds := []string{"create", "create", "create", "update", "delete"}
			if len(allowed[db]) > 0 && allowed[db][len(allowed[db])-1] != nil {
				kinds = []string{"update", "update", "update", "delete", "create"}
			}
			return rapid.SampledFrom(kinds).Draw(rt, "kind"), db, rapid.IntRange(0, len(menu)-1).Draw(rt, "set"), 10 * (i + 1)
		}
		apply := func(kind, db string, set, payload int, status int, node string, expectValid, definite bool) {
			ok := status >= 200 && status < 300
			ops = append(ops, fmt.Sprintf("%s.%s(%s,set%d,p%d)=%d", node, kind, db, set, payload, status))
			switch {
			case ok && kind == "delete":
				allowed[db] = []*vfC15RestCfg{nil}
			case ok:
				allowed[db] = []*vfC15RestCfg{{payload: payload, colls: collsOf(set)}}
			case status >= 500:
				// outcome unknown
				interrupted = true
				if kind == "delete" {
					allowed[db] = append(allowed[db], nil)
				} else {
					allowed[db] = append(allowed[db], &vfC15RestCfg{payload: payload, colls: collsOf(set)})
				}
			}
			if !ok && definite && expectValid && interrupted {
				reg := rawRegistry()
				stale := strings.Contains(reg, `"previous_version"`) && kit.Known("C15", vfC15SigStalePrev)
				marker := strings.Contains(reg, `"0-0"`) && vfC15OpenDeleteMarkerSig() != ""
				if status == 409 && (stale || marker) {
					if stale {
						rec.Excluded(vfC15SigStalePrev)
					} else {
						rec.Excluded(vfC15OpenDeleteMarkerSig())
					}
					return
				}
				fail("%s %s of %s is valid but node %s answered %d after an interrupted change", kind, db, collsOf(set), node, status)
			}
		}

		kit.Guard(rt, "C15", "Rest", render, func() {
			nSetup := rapid.IntRange(1, 3).Draw(rt, "setup")
			for i := 0; i < nSetup; i++ {
				kind, db, set, p := genOp(i)
				v, d := valid(kind, db, set)
				connA.arm(-1)
				apply(kind, db, set, p, do(scA, "A", kind, db, set, p), "A", v, d)
				observe("after " + kind)
			}
			// the change during which node A dies
			kind, db, set, p := genOp(nSetup)
			j := rapid.SampledFrom([]int{0, 1, 1, 2, 2, 3}).Draw(rt, "dieAfter")
			v, d := valid(kind, db, set)
			connA.arm(j)
			status := do(scA, "A", kind, db, set, p)
			if connA.crashed {
				interrupted = true
				inside = connA.appliedAtC >= 1
				ops = append(ops, fmt.Sprintf("A.%s(%s,set%d,p%d)†%d[%s]", kind, db, set, p, j, strings.Join(connA.trace, ",")))
				if kind == "delete" {
					allowed[db] = append(allowed[db], nil)
				} else {
					allowed[db] = append(allowed[db], &vfC15RestCfg{payload: p, colls: collsOf(set)})
				}
			} else {
				connA.dieAfter = -1
				apply(kind, db, set, p, status, "A", v, d)
			}
			observe("recovery")
			for i, n := 0, rapid.IntRange(1, 2).Draw(rt, "after"); i < n; i++ {
				kind, db, set, p := genOp(nSetup + 1 + i)
				v, d := valid(kind, db, set)
				apply(kind, db, set, p, do(scB, "B", kind, db, set, p), "B", v, d)
				followed = true
				observe("after " + kind + " on B")
			}
		})
		rec.Case(render(), inside && followed, fmt.Sprintf("crashed=%v", connA.crashed), fmt.Sprintf("inside=%v", inside))
	})
}
