package rest

// C19 — BLIP push / BLIP pull with the repository's BlipTesterClient, and inter-gateway
// replication (ISGR) of a sample to a second gateway.
// Injected into package rest by the /verif driver; never part of /repo.

import (
	"fmt"
	"strconv"
	"strings"
	"testing"
	"time"

	"github.com/couchbase/go-blip"
	"github.com/couchbase/sync_gateway/base"
	"github.com/couchbase/sync_gateway/db"
	kit "github.com/couchbase/sync_gateway/verifkit"
	"pgregory.net/rapid"
)

type vfC19Blip struct {
	*vfC19Env
	runner *BlipTestClientRunner
	client *BlipTesterClient
	v4     bool
	cvN    uint64
}

func vfC19NewBlip(t *testing.T, test string, v4 bool) *vfC19Blip {
	e := vfC19NewEnv(t, test, false, nil)
	runner := NewBlipTesterClientRunner(t)
	proto := db.CBMobileReplicationV3
	if v4 {
		proto = db.CBMobileReplicationV4
	}
	runner.SetSubprotocols([]string{proto.SubprotocolString()})
	client := runner.NewBlipTesterClientOptsWithRT(e.rt, &BlipTesterClientOpts{AllowCreationWithoutBlipTesterClientRunner: true})
	runner.StartPull(client.id)
	return &vfC19Blip{vfC19Env: e, runner: runner, client: client, v4: v4, cvN: 0x1900000000000000}
}

func (b *vfC19Blip) Close() {
	b.client.Close()
	b.vfC19Env.Close()
}

type vfC19BlipResult struct {
	ErrCode string
	Body    string
}

// pushRev sends one `rev` message on the client's push connection and waits for the reply, the way
// the repository's own reserved-property test does (the client's higher-level push asserts).
func (b *vfC19Blip) pushRev(docID, rev, history string, body []byte) vfC19BlipResult {
	rq := blip.NewRequest()
	rq.SetProfile(db.MessageRev)
	rq.Properties[db.RevMessageID] = docID
	rq.Properties[db.RevMessageRev] = rev
	if history != "" {
		rq.Properties[db.RevMessageHistory] = history
	}
	rq.SetBody(body)
	b.client.addCollectionProperty(rq)
	b.client.pushReplication.sendMsg(rq)
	resp := rq.Response()
	rb, _ := resp.Body()
	return vfC19BlipResult{ErrCode: resp.Properties["Error-Code"], Body: string(rb)}
}

// pulled waits until the continuous pull of the client has received the given revision and returns
// the raw body of that `rev` message.
func (b *vfC19Blip) pulled(docID, revID, cv string) []byte {
	version := DocVersion{RevTreeID: revID}
	if b.v4 {
		v, err := db.ParseVersion(cv)
		if err != nil {
			panic(kit.InconclusiveErr{Msg: fmt.Sprintf("cannot parse _cv %q of %q: %v", cv, docID, err)})
		}
		version = DocVersion{CV: v}
	}
	deadline := time.Now().Add(vfC19WaitBound)
	for {
		if msg, ok := b.runner.GetPullRevMessage(b.client.id, docID, version); ok {
			body, err := msg.Body()
			if err != nil {
				panic(kit.InconclusiveErr{Msg: "reading pulled rev body: " + err.Error()})
			}
			return body
		}
		if time.Now().After(deadline) {
			panic(kit.InconclusiveErr{Msg: fmt.Sprintf("BLIP pull did not deliver %q %s/%s within %v", docID, revID, cv, vfC19WaitBound)})
		}
		time.Sleep(time.Millisecond)
	}
}

// current fetches _rev and _cv of the document over REST (bookkeeping only).
func (e *vfC19Env) current(docID string) (rev, cv string, code int) {
	r := e.do("GET", vfC19Path(docID), "", nil)
	if r.Code != 200 {
		return "", "", r.Code
	}
	v, err := vfC19Decode(r.Body)
	if err != nil || v.Kind != 'o' {
		return "", "", -1
	}
	if x := v.Get("_rev"); x != nil {
		rev = x.Str
	}
	if x := v.Get("_cv"); x != nil {
		cv = x.Str
	}
	return rev, cv, 200
}

var vfC19BlipAdded = map[string]bool{"_attachments": true, "_id": true, "_rev": true, "_cv": true, "_revisions": true, "_exp": true, "_deleted": true, "_removed": true}

// TestVerif_C19_Blip: generated bodies pushed over BLIP (rev-tree ids on protocol v3 and v4,
// version-vector ids on v4), or written over REST / imported, are read back by BLIP pull and by
// every REST read path.
func TestVerif_C19_Blip(t *testing.T) {
	rec := kit.New("C19", "Blip")
	defer rec.Flush()
	envs := []*vfC19Blip{vfC19NewBlip(t, "Blip", false), vfC19NewBlip(t, "Blip", true)}
	defer func() {
		for _, b := range envs {
			b.Close()
		}
	}()
	knownBlank := kit.Known("C19", vfC19SigBlankObject)
	knownBlipEscaped := kit.Known("C19", vfC19SigBlipEscaped)
	rapid.Check(t, func(rt *rapid.T) {
		defer vfC19Inconclusive(rt, rec)
		var ops []string
		b := envs[rapid.IntRange(0, 1).Draw(rt, "proto")]
		e := b.vfC19Env
		docID := e.newDocID(rt)
		c := &vfC19Checker{e: e, rt: rt, ops: &ops, docID: docID, paths: map[string]bool{}}
		proto := "v3"
		if b.v4 {
			proto = "v4"
		}
		classes := []string{"blip=" + proto}
		sigParts := []string{proto}
		nontrivial := false
		paths := []string{"blip", "blip", "PUT", "import"}
		if b.v4 {
			paths = append(paths, "blip-cv", "blip-cv")
		}
		update := rapid.IntRange(0, 3).Draw(rt, "update") == 0
		ops = append(ops, "protocol "+proto)
		writeOne := func(n int, last bool, parent *vfC19Rev) *vfC19Rev {
			w := rapid.SampledFrom(paths).Draw(rt, fmt.Sprintf("w%d", n))
			if parent != nil && w == "blip-cv" && !strings.HasPrefix(parent.Path, "blip-cv") {
				w = "blip"
			}
			body := vfC19GenBody(rt, vfC19GenCfg{MaxDepth: 6, NoHugeFloat: !last})
			st := vfC19GenStyle(rt)
			if vfC19BlankObjectShape(w, body, st) && knownBlank {
				rec.Excluded(vfC19SigBlankObject)
				st = &vfC19Style{Compact: true}
			}
			var exp *vfC19Val
			if strings.HasPrefix(w, "blip") && rapid.IntRange(0, 5).Draw(rt, "exp") == 0 {
				exp = rapid.SampledFrom(vfC19ExpValues).Draw(rt, "expval")
				classes = append(classes, "with-_exp")
			}
			r := &vfC19Rev{Body: body, Path: "blip-" + proto, HasExp: exp != nil}
			switch w {
			case "blip", "blip-cv":
				wire := body
				if exp != nil {
					wire = vfC19WithExtras(body, "_exp", exp)
				}
				text, esc := vfC19SerDoc(wire, st)
				if exp != nil && !strings.Contains(text, `"_exp"`) {
					classes = append(classes, "_exp-key-escaped")
					if knownBlipEscaped {
						// listed finding: the rev handler looks for reserved names in the raw bytes
						rec.Excluded(vfC19SigBlipEscaped)
						text, esc = vfC19Ser(wire, &vfC19Style{Compact: true})
					}
				}
				r.Text, r.Escaped = text, esc
				rev, history := "", ""
				if w == "blip" {
					gen := 1
					if parent != nil {
						gen = vfC19RevGen(parent.RevID) + 1
						history = parent.RevID
					}
					rev = fmt.Sprintf("%d-%s", gen, rapid.SampledFrom([]string{"abc", "0a0a", "fed"}).Draw(rt, "digest"))
				} else {
					b.cvN++
					rev = strconv.FormatUint(b.cvN, 16) + "@c19src"
					r.Path = "blip-cv"
				}
				ops = append(ops, fmt.Sprintf("BLIP rev id=%q rev=%s history=%q body=%s", docID, rev, history, text))
				res := b.pushRev(docID, rev, history, []byte(text))
				if res.ErrCode != "" {
					c.fail("BLIP push of a valid body was rejected: Error-Code %s %s", res.ErrCode, vfC19Clip(res.Body))
				}
				cur, _, code := e.current(docID)
				if code != 200 {
					c.fail("BLIP push was acknowledged but GET answers %d", code)
				}
				if w == "blip" && cur != rev {
					c.fail("BLIP push of %s was acknowledged but the current revision is %s", rev, cur)
				}
				r.RevID = cur
			default:
				parentRev := ""
				if parent != nil {
					parentRev = parent.RevID
				}
				res, text, esc := e.write(w, docID, body, st, parentRev, "", nil, &ops)
				if res.Code != 201 || res.RevID == "" {
					c.fail("write by %s of a valid body was not accepted: status %d %s", w, res.Code, vfC19Clip(res.Reason))
				}
				r.RevID, r.Text, r.Escaped, r.Path = res.RevID, text, esc, w
			}
			vfC19Scan(body, 0, true, &r.Feature)
			sigParts = append(sigParts, fmt.Sprintf("%s esc=%v %s", w, r.Escaped, vfC19Canon(body)))
			classes = append(classes, "write="+w)
			classes = append(classes, r.Feature.Classes()...)
			if r.Escaped {
				classes = append(classes, "body:escaped-key")
			}
			if r.Feature.NonFloat || r.Escaped {
				nontrivial = true
			}
			return r
		}
		kit.Guard(rt, "C19", "Blip", func() string { return strings.Join(ops, "; ") }, func() {
			// every written revision is awaited on the pull side before the next write: the tester
			// client asserts when revisions of one document reach it out of order
			pullCheck := func(r *vfC19Rev) {
				_, cv, code := e.current(docID)
				if code != 200 {
					c.fail("GET of the written document answers %d", code)
				}
				raw := b.pulled(docID, r.RevID, cv)
				ops = append(ops, fmt.Sprintf("BLIP pull rev %s", r.RevID))
				what := "BLIP-pull"
				v := c.raw(what, raw)
				if v.Kind != 'o' {
					c.fail("%s: body is not an object: %s", what, vfC19Clip(string(raw)))
				}
				for _, k := range []string{"_id", "_rev", "_exp", "_deleted", "_removed", "_revisions", "_cv", "_sync"} {
					if v.Get(k) != nil {
						c.fail("%s: pulled body carries %s: %s", what, k, vfC19Clip(string(raw)))
					}
				}
				if d := vfC19Equal(r.Body, v.Without(vfC19BlipAdded)); d != "" {
					c.fail("%s: body written by %s differs from the pulled body: %s\nwritten: %s\npulled:  %s", what, r.Path, d, r.Text, vfC19Clip(string(raw)))
				}
				c.reads++
				c.paths[what] = true
			}
			rev1 := writeOne(1, !update, nil)
			pullCheck(rev1)
			current, old := rev1, []*vfC19Rev(nil)
			if update {
				rev2 := writeOne(2, true, rev1)
				pullCheck(rev2)
				current, old = rev2, []*vfC19Rev{rev1}
				rev1.HasExp, rev2.HasExp = false, false
				classes = append(classes, "shape=update")
			} else {
				classes = append(classes, "shape=single")
			}
			// REST reads of what BLIP wrote
			c.readAll(current, []*vfC19Rev{current}, old)
			if c.skippedChanges {
				classes = append(classes, "changes-read-skipped(out-of-float-range literal)")
			}
		})
		rec.Case(strings.Join(sigParts, " | "), nontrivial, classes...)
	})
	if knownBlipEscaped {
		vfC19RegressBlipEscaped(envs[0])
	}
}

// vfC19RegressBlipEscaped: minimal reproductions of "blip-escaped-reserved-key-bypasses-raw-prefilter".
func vfC19RegressBlipEscaped(b *vfC19Blip) {
	var seen []string
	if res := b.pushRev("c19-regress-esc-id", "1-abc", "", []byte(`{"_i\u0064":"other","a":1}`)); res.ErrCode == "" {
		seen = append(seen, "rev body {\"_i\\u0064\":\"other\",\"a\":1} is accepted although validateBlipBody documents rejection of _id")
	}
	if res := b.pushRev("c19-regress-esc-exp", "1-abc", "", []byte(`{"_\u0065xp":4102444800,"a":1}`)); res.ErrCode == "" {
		g := b.do("GET", "/c19-regress-esc-exp", "", nil)
		if v, err := vfC19Decode(g.Body); err == nil && v.Kind == 'o' && v.Get("_exp") != nil {
			seen = append(seen, "rev body {\"_\\u0065xp\":4102444800,\"a\":1} keeps _exp in the stored body: GET returns "+strings.TrimSpace(vfC19Clip(string(g.Body))))
		}
	}
	if len(seen) > 0 {
		kit.KnownFinding("C19", vfC19SigBlipEscaped, strings.Join(seen, "; "))
	}
}

// ---------------------------------------------------------------------------------------------
// ISGR sample

// TestVerif_C19_ISGR: a batch of generated documents written on one gateway is pushed by a one-shot
// inter-gateway replication to a second gateway and read there.
func TestVerif_C19_ISGR(t *testing.T) {
	rec := kit.New("C19", "ISGR")
	defer rec.Flush()
	peers := SetupISGRPeersWithOpts(t, TestISGRPeerOpts{
		ActiveRestTesterConfig:  &RestTesterConfig{SyncFn: vfC19SyncFn, SgReplicateEnabled: true, DatabaseConfig: &DatabaseConfig{DbConfig: DbConfig{Name: "activedb"}}},
		PassiveRestTesterConfig: &RestTesterConfig{SyncFn: vfC19SyncFn, DatabaseConfig: &DatabaseConfig{DbConfig: DbConfig{Name: "passivedb"}}},
	})
	active := &vfC19Env{t: t, rt: peers.ActiveRT, ks: peers.ActiveRT.GetSingleKeyspace(), ctx: peers.ActiveRT.Context(), since: "0", test: "ISGR"}
	passive := &vfC19Env{t: t, rt: peers.PassiveRT, ks: peers.PassiveRT.GetSingleKeyspace(), ctx: peers.PassiveRT.Context(), since: "0", test: "ISGR"}
	round := 0
	knownBlank := kit.Known("C19", vfC19SigBlankObject)
	rapid.Check(t, func(rt *rapid.T) {
		defer vfC19Inconclusive(rt, rec)
		var ops []string
		round++
		n := rapid.IntRange(1, 6).Draw(rt, "docs")
		type item struct {
			id  string
			rev *vfC19Rev
		}
		var items []item
		var classes []string
		var sigParts []string
		nontrivial := false
		c := &vfC19Checker{e: active, rt: rt, ops: &ops, paths: map[string]bool{}}
		kit.Guard(rt, "C19", "ISGR", func() string { return strings.Join(ops, "; ") }, func() {
			for i := 0; i < n; i++ {
				docID := active.newDocID(rt)
				w := rapid.SampledFrom([]string{"PUT", "bulk", "import", "bulk-noedits"}).Draw(rt, "w")
				// no literal outside the float64 range here: the test store's view engine cannot index
				// such a document, so a replication whose changes feed starts from the channel query
				// (since=0) never sees it — a property of the test store, not of body fidelity
				body := vfC19GenBody(rt, vfC19GenCfg{MaxDepth: 6, NoHugeFloat: true})
				st := vfC19GenStyle(rt)
				if vfC19BlankObjectShape(w, body, st) && knownBlank {
					rec.Excluded(vfC19SigBlankObject)
					st = &vfC19Style{Compact: true}
				}
				res, text, esc := active.write(w, docID, body, st, "", "1-abc", nil, &ops)
				if res.Code != 201 || res.RevID == "" {
					c.fail("write by %s of a valid body was not accepted: status %d %s", w, res.Code, vfC19Clip(res.Reason))
				}
				r := &vfC19Rev{RevID: res.RevID, Body: body, Text: text, Path: w, Escaped: esc}
				vfC19Scan(body, 0, true, &r.Feature)
				classes = append(classes, "write="+w)
				classes = append(classes, r.Feature.Classes()...)
				if r.Feature.NonFloat || esc {
					nontrivial = true
				}
				sigParts = append(sigParts, fmt.Sprintf("%s esc=%v %s", w, esc, vfC19Canon(body)))
				items = append(items, item{docID, r})
			}
			// the one-shot run replicates what the active gateway's change cache holds: write a plain
			// barrier document last and wait until it is on the feed
			barrierID := active.newDocID(rt)
			bres, _, _ := active.write("PUT", barrierID, vfC19Obj().Set("barrier", vfC19Num(strconv.Itoa(round))), &vfC19Style{Compact: true}, "", "", nil, &ops)
			if bres.Code != 201 {
				c.fail("PUT of the barrier document was not accepted: %d %s", bres.Code, vfC19Clip(bres.Reason))
			}
			c.docID = barrierID
			c.changes(&vfC19Rev{RevID: bres.RevID, Body: vfC19Obj().Set("barrier", vfC19Num(strconv.Itoa(round))), Path: "PUT", Text: "(barrier)"})
			// one-shot push replication, created and watched over the admin REST API
			replID := fmt.Sprintf("c19-%d", round)
			cfg := vfC19Obj().Set("replication_id", vfC19Str(replID)).Set("direction", vfC19Str("push")).Set("remote", vfC19Str(peers.PassiveDBURL)).
				Set("continuous", &vfC19Val{Kind: 'f'})
			if base.TestsUseNamedCollections() {
				cfg.Set("collections_enabled", &vfC19Val{Kind: 't'})
			}
			ops = append(ops, "POST /activedb/_replication/ one-shot push")
			ar := active.admin("POST", "/activedb/_replication/", vfC19MustSer(cfg))
			if ar.Code != 201 {
				panic(kit.InconclusiveErr{Msg: fmt.Sprintf("creating replication: %d %s", ar.Code, ar.Body)})
			}
			// completion signal: the manager flips the *target state* of a one-shot replication to
			// "stopped" only when the run has completed (the status alone reads "stopped" before the run starts)
			deadline := time.Now().Add(vfC19WaitBound)
			for {
				target := ""
				if rc, err := active.rt.GetDatabase().SGReplicateMgr.GetReplication(replID); err == nil && rc != nil {
					target = rc.TargetState
				}
				sr := active.admin("GET", "/activedb/_replicationStatus/"+replID, "")
				status, errMsg := "", ""
				if sr.Code == 200 {
					if v, err := vfC19Decode(sr.Body); err == nil && v.Kind == 'o' {
						if x := v.Get("status"); x != nil {
							status = x.Str
						}
						if x := v.Get("error_message"); x != nil {
							errMsg = x.Str
						}
					}
				}
				if status == "error" {
					panic(kit.InconclusiveErr{Msg: "replication in error state: " + errMsg})
				}
				if target == "stopped" && status == "stopped" {
					ops = append(ops, "replication stopped: "+string(sr.Body))
					break
				}
				if time.Now().After(deadline) {
					panic(kit.InconclusiveErr{Msg: "one-shot replication did not reach stopped: " + string(sr.Body)})
				}
				time.Sleep(2 * time.Millisecond)
			}
			pc := &vfC19Checker{e: passive, rt: rt, ops: &ops, paths: map[string]bool{}}
			for _, it := range items {
				pc.docID = it.id
				what := "ISGR-passive-GET"
				ops = append(ops, "passive GET "+vfC19Path(it.id))
				r := passive.do("GET", vfC19Path(it.id), "", nil)
				if r.Code != 200 {
					pc.fail("%s: document %q written by %s did not arrive on the second gateway after the replication stopped: %d %s", what, it.id, it.rev.Path, r.Code, vfC19Clip(string(r.Body)))
				}
				pc.doc(what, pc.raw(what, r.Body), it.rev, false)
			}
		})
		rec.Case(strings.Join(sigParts, " | "), nontrivial, classes...)
	})
}

// admin sends an admin request to an absolute path.
func (e *vfC19Env) admin(method, path, body string) vfC19Resp {
	r := e.rt.SendAdminRequest(method, path, body)
	return vfC19Resp{Code: r.Code, Body: r.Body.Bytes(), Hdr: r.Header()}
}
