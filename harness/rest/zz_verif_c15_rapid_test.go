package rest

// C15 — generated families on top of zz_verif_c15_config_test.go:
//   Seq  : rapid sequences over 2–3 databases with any number of crashes (also inside a recovery load)
//          and operations issued by a live node that has not loaded since the crash;
//   Race : two live nodes whose storage calls are interleaved one by one by the generator;
//   LoadRace : a load on one node with batches of COMPLETED changes of another node (incl. a collection
//          handed from one database to another) placed between the load's individual storage calls.

import (
	"fmt"
	"sort"
	"strings"
	"sync/atomic"
	"testing"
	"time"

	"github.com/couchbase/sync_gateway/base"
	kit "github.com/couchbase/sync_gateway/verifkit"
	"pgregory.net/rapid"
)

// vfC15GenOp draws an operation; the kind is biased by what the model thinks of the database so that
// most operations are valid (a rejected operation exercises little), invalid ones stay in the domain.
func vfC15GenOp(rt *rapid.T, w *vfC15World, payload int) vfC15Op {
	db := rapid.IntRange(0, len(w.dbNames)-1).Draw(rt, "db")
	st := w.model[db]
	kinds := []int{vfC15Insert, vfC15Insert, vfC15Insert, vfC15Insert, vfC15Update, vfC15Delete}
	if st.allowed[len(st.allowed)-1] != nil {
		kinds = []int{vfC15Update, vfC15Update, vfC15Update, vfC15Delete, vfC15Delete, vfC15Insert}
	}
	op := vfC15Op{kind: rapid.SampledFrom(kinds).Draw(rt, "kind"), db: db, payload: payload}
	if op.kind != vfC15Delete {
		op.set = rapid.IntRange(0, len(w.menu)-1).Draw(rt, "set")
		if op.kind == vfC15Insert && rapid.Bool().Draw(rt, "samePayload") {
			op.payload = op.set // identical request => identical version string on re-creation
		}
	}
	return op
}

// vfC15GenRaceOp: operations for the two racing nodes. Unlike vfC15GenOp it does not shy away from
// "invalid" kinds (an Insert of an existing database is exactly what races with its Delete), and the
// second node is drawn towards the databases the first node touches.
func vfC15GenRaceOp(rt *rapid.T, w *vfC15World, payload int, near []int) vfC15Op {
	db := rapid.IntRange(0, len(w.dbNames)-1).Draw(rt, "db")
	if len(near) > 0 && rapid.IntRange(0, 3).Draw(rt, "sameDB") > 0 {
		db = rapid.SampledFrom(near).Draw(rt, "nearDB")
	}
	op := vfC15Op{kind: rapid.SampledFrom([]int{vfC15Insert, vfC15Update, vfC15Delete}).Draw(rt, "kind"), db: db, payload: payload}
	if op.kind != vfC15Delete {
		op.set = rapid.IntRange(0, len(w.menu)-1).Draw(rt, "set")
	}
	return op
}

func vfC15FlushWorld(w *vfC15World, rec *kit.Rec, nontrivial bool, extra ...string) {
	for sig, n := range w.excluded {
		for ; n > 0; n-- {
			rec.Excluded(sig)
		}
	}
	classes := append([]string{}, extra...)
	keys := make([]string, 0, len(w.classes))
	for k := range w.classes {
		keys = append(keys, k)
	}
	sort.Strings(keys)
	for _, k := range keys {
		for v := w.classes[k]; v > 0; v-- {
			classes = append(classes, k)
		}
	}
	rec.Case(w.render(), nontrivial, classes...)
}

// TestVerif_C15_Seq: generated histories with several interrupted changes.
func TestVerif_C15_Seq(t *testing.T) {
	rec := kit.New("C15", "Seq")
	defer rec.Flush()
	ctx := base.TestCtx(t)
	rapid.Check(t, func(rt *rapid.T) {
		nDB := rapid.IntRange(2, 3).Draw(rt, "dbs")
		w, err := vfC15NewWorld(rt, "Seq", ctx, nDB, vfC15MenuFull)
		if err != nil {
			rt.Fatalf("harness: %v", err)
		}
		defer w.Close()
		kit.Guard(rt, "C15", "Seq", w.render, func() {
			node := w.NewNode()
			steps := rapid.IntRange(3, 10).Draw(rt, "steps")
			insideCrash, opAfterInside, directOps := false, false, 0
			loadedSinceCrash := true
			for s := 0; s < steps; s++ {
				switch rapid.SampledFrom([]string{"op", "op", "op", "crashop", "crashop", "crashop", "load", "crashload"}).Draw(rt, "action") {
				case "op":
					op := vfC15GenOp(rt, w, 10*(s+1))
					if !loadedSinceCrash {
						directOps++
						w.classes["op_on_node_that_has_not_loaded_since_crash"]++
					}
					if insideCrash {
						opAfterInside = true
					}
					w.step(node, op, "")
					if rapid.Bool().Draw(rt, "loadAfter") {
						w.load(node, "poll")
						loadedSinceCrash = true
					}
				case "crashop":
					op := vfC15GenOp(rt, w, 10*(s+1))
					j := rapid.SampledFrom([]int{0, 1, 1, 1, 2, 2, 3, 4}).Draw(rt, "dieAfter")
					if insideCrash {
						opAfterInside = true
					}
					reached, _ := w.crashStep(node, op, j)
					if reached {
						if !w.raw().clean() {
							insideCrash = true
							w.classes["crash_left_registry_and_config_out_of_step"]++
						}
						node = w.NewNode()
						loadedSinceCrash = false
						switch rapid.SampledFrom([]string{"none", "none", "load", "load", "crashload", "crashload"}).Draw(rt, "recover") {
						case "load":
							w.load(node, "recovery")
							loadedSinceCrash = true
						case "crashload":
							// the recovering node dies inside its own roll-back writes
							if w.crashLoad(node, rapid.IntRange(0, 1).Draw(rt, "loadDieAfter")) {
								node = w.NewNode()
							} else {
								loadedSinceCrash = true
							}
						}
					}
				case "load":
					w.load(node, "poll")
					loadedSinceCrash = true
				case "crashload":
					if w.crashLoad(node, rapid.IntRange(0, 2).Draw(rt, "dieAfter")) {
						if !w.raw().clean() {
							insideCrash = true
						}
						node = w.NewNode()
						loadedSinceCrash = false
					} else {
						loadedSinceCrash = true
					}
				}
			}
			final := w.NewNode()
			w.load(final, "final")
			w.probes(final, 900)
			vfC15FlushWorld(w, rec, insideCrash && opAfterInside, fmt.Sprintf("dbs=%d", nDB))
		})
	})
}

// ---------------------------------------------------------------------------------------------
// two live nodes, interleaved call by call

type vfC15ActorOp struct {
	load     bool
	op       vfC15Op
	dieAfter int // -1: the node survives this operation
}

func (a vfC15ActorOp) String() string {
	s := "Load"
	if !a.load {
		s = a.op.String()
	}
	if a.dieAfter >= 0 {
		s += fmt.Sprintf("†%d", a.dieAfter)
	}
	return s
}

type vfC15ActorRes struct {
	aop     vfC15ActorOp
	started bool
	res     vfC15Result // operations
	crashed bool
	seen    map[string]*vfC15Cfg // loads
	bad     string
	loadErr error
}

type vfC15Actor struct {
	id           int
	node         *vfC15Node
	prog         []vfC15ActorOp
	res          []vfC15ActorRes
	req          chan string
	grant        chan struct{}
	done         chan struct{}
	cur          atomic.Int32
	pending      string
	fin          bool
	last         string
	lastFirst    time.Time     // when the first of a run of identical calls was granted
	fixedTimeout time.Duration // regress reproductions: keep this configRetryTimeout, do not adapt it
	panicV       any
}

func (w *vfC15World) runActor(a *vfC15Actor) {
	defer close(a.done)
	defer func() {
		if p := recover(); p != nil {
			a.panicV = p
		}
	}()
	a.node.conn.gate = func(call string) {
		a.req <- call
		<-a.grant
	}
	for i, aop := range a.prog {
		a.cur.Store(int32(i))
		r := &a.res[i]
		r.started = true
		a.node.conn.arm(aop.dieAfter)
		if aop.load {
			r.seen, r.bad, r.loadErr = w.observe(a.node)
		} else {
			r.res = w.exec(a.node, aop.op)
		}
		r.crashed = a.node.conn.crashed
		if a.node.conn.dead {
			return
		}
	}
}

// Wait budgets in the race family. A node that finds registry and config document out of step waits for
// the change to complete (configRetryTimeout, 30 s in the product). That wait may expire only against a
// node that will issue no further calls — one that died or has finished its program — never against a
// live node that goes on (a node frozen for longer than the product's 30 s between two storage calls is
// outside the property's quantifier). So: while the other node is alive and unfinished a wait gets
// vfC15PatientTimeout and the scheduler runs that node to the end of its operation before the next
// poll; if that took longer than vfC15PatientSlack of wall-clock (overloaded machine) the case is
// dropped as inconclusive — the clock never contributes to a verdict. Once the other node is dead or
// done, a new wait gets vfC15ExpiredTimeout.
const (
	vfC15PatientTimeout = 3 * time.Second
	vfC15PatientSlack   = time.Second
	vfC15ExpiredTimeout = time.Millisecond
)

// runRace starts the actors and grants their storage calls one at a time; choose picks among the two
// actors when both are waiting. An actor that repeats its previous read is polling for the other
// node's change: that node is then run to the end of its current operation first.
func (w *vfC15World) runRace(actors []*vfC15Actor, choose func(ready []*vfC15Actor) *vfC15Actor) (sched []string, switches int, ok bool) {
	wait := func(a *vfC15Actor) bool {
		select {
		case c := <-a.req:
			a.pending = c
		case <-a.done:
			a.fin = true
		case <-time.After(120 * time.Second):
			return false
		}
		return true
	}
	for _, a := range actors {
		go w.runActor(a)
		if !wait(a) {
			return sched, switches, false
		}
	}
	grant := func(a *vfC15Actor) bool {
		sched = append(sched, fmt.Sprintf("%d:%s", a.node.id, a.pending))
		if a.pending != a.last {
			a.lastFirst = time.Now()
		}
		if a.fixedTimeout == 0 {
			// a wait this actor starts now expires quickly only if the other node will not act again
			if other := actors[1-a.id]; other.fin {
				a.node.bc.configRetryTimeout = vfC15ExpiredTimeout
			} else {
				a.node.bc.configRetryTimeout = vfC15PatientTimeout
			}
		}
		a.last = a.pending
		a.grant <- struct{}{}
		return wait(a)
	}
	lastActor := -1
	for {
		var ready []*vfC15Actor
		for _, a := range actors {
			if !a.fin {
				ready = append(ready, a)
			}
		}
		if len(ready) == 0 {
			return sched, switches, true
		}
		pick := ready[0]
		if len(ready) > 1 {
			pick = choose(ready)
			if pick.pending == pick.last {
				other := actors[1-pick.id]
				cur := other.cur.Load()
				for !other.fin && other.cur.Load() == cur {
					if !grant(other) {
						return sched, switches, false
					}
				}
				if time.Since(pick.lastFirst) > vfC15PatientSlack {
					return sched, switches, false // too slow to tell a patient wait from an expired one
				}
				lastActor = other.id
				continue
			}
		}
		if lastActor >= 0 && lastActor != pick.id {
			switches++
		}
		lastActor = pick.id
		if !grant(pick) {
			return sched, switches, false
		}
	}
}

// vfC15RaceOp is what the serial-order search needs to know about one operation of the race.
type vfC15RaceOp struct {
	op      vfC15Op
	must    bool      // acknowledged: has to be part of the explanation
	may     bool      // outcome unknown (failed or node died): may be part of it
	sawLast *vfC15Cfg // update: what its last callback invocation was handed
	newCfg  *vfC15Cfg
}

// vfC15Serial enumerates every final state reachable by applying, in an order that respects each
// node's program order, all acknowledged changes and any subset of the changes whose outcome is
// unknown — each one atomically and on top of the state it saw. Rejected changes are never applied.
func vfC15Serial(pre []*vfC15Cfg, progs [][]vfC15RaceOp) map[string][]*vfC15Cfg {
	out := map[string][]*vfC15Cfg{}
	key := func(st []*vfC15Cfg) string {
		parts := make([]string, len(st))
		for i, c := range st {
			if c == nil {
				parts[i] = "-"
			} else {
				parts[i] = c.norm
			}
		}
		return strings.Join(parts, "\x00")
	}
	apply := func(st []*vfC15Cfg, o vfC15RaceOp) ([]*vfC15Cfg, bool) {
		cur := st[o.op.db]
		var next *vfC15Cfg
		switch o.op.kind {
		case vfC15Insert:
			if cur != nil || o.newCfg == nil {
				return nil, false
			}
			next = o.newCfg
		case vfC15Update:
			if cur == nil || o.newCfg == nil || o.sawLast == nil || !vfC15Same(cur, o.sawLast) {
				return nil, false
			}
			next = o.newCfg
		case vfC15Delete:
			if cur == nil {
				return nil, false
			}
		}
		if next != nil {
			for i, c := range st {
				if i != o.op.db && c != nil && vfC15Overlap(c.colls, next.colls) != "" {
					return nil, false
				}
			}
		}
		ns := append([]*vfC15Cfg{}, st...)
		ns[o.op.db] = next
		return ns, true
	}
	var rec func(st []*vfC15Cfg, idx []int)
	rec = func(st []*vfC15Cfg, idx []int) {
		doneAll := true
		for a := range progs {
			if idx[a] >= len(progs[a]) {
				continue
			}
			doneAll = false
			o := progs[a][idx[a]]
			nidx := append([]int{}, idx...)
			nidx[a]++
			if o.must || o.may {
				if ns, ok := apply(st, o); ok {
					rec(ns, nidx)
				}
			}
			if !o.must {
				rec(st, nidx)
			}
		}
		if doneAll {
			out[key(st)] = st
		}
	}
	rec(pre, make([]int, len(progs)))
	return out
}

// Known-finding signatures of the race family (see known-findings.json). While a signature is listed
// as open the shape is kept out of the asserted domain; otherwise it is generated and asserted.
const (
	// a create of database X racing any other change of X on another node whose registry read is older
	vfC15SigSameDBCreate = "create-racing-another-change-of-the-same-database"
	// DeleteConfig's finalising step removes the registry entry of X although X was re-created meanwhile
	vfC15SigDeleteFinalize = "delete-finalize-removes-recreated-database"
)

// TestVerif_C15_Race: two live nodes, every storage call a scheduling point.
func TestVerif_C15_Race(t *testing.T) {
	rec := kit.New("C15", "Race")
	defer rec.Flush()
	ctx := base.TestCtx(t)
	rapid.Check(t, func(rt *rapid.T) {
		started := time.Now() // reporting only (class wall=...), never part of a verdict
		nDB := rapid.IntRange(2, 3).Draw(rt, "dbs")
		w, err := vfC15NewWorld(rt, "Race", ctx, nDB, vfC15MenuFull)
		if err != nil {
			rt.Fatalf("harness: %v", err)
		}
		defer w.Close()
		kit.Guard(rt, "C15", "Race", w.render, func() {
			// set-up: a few completed changes on one node
			setup := w.NewNode()
			for s, n := 0, rapid.IntRange(0, 5).Draw(rt, "setupOps"); s < n; s++ {
				w.step(setup, vfC15GenOp(rt, w, s+1), "")
			}
			w.load(setup, "before race")
			pre := make([]*vfC15Cfg, nDB)
			for i := range pre {
				pre[i], _ = w.model[i].definite()
			}
			// crash mode: operations of the race may carry a death (the node stops at a generated storage
			// call); otherwise both nodes stay alive. Waits expire only against dead or finished nodes.
			crash := rapid.Bool().Draw(rt, "crash")
			var near []int
			actors := make([]*vfC15Actor, 2)
			for i := range actors {
				a := &vfC15Actor{id: i, req: make(chan string), grant: make(chan struct{}), done: make(chan struct{})}
				a.node = w.NewNode()
				a.node.bc.configRetryTimeout = vfC15PatientTimeout
				n := rapid.IntRange(1, 2).Draw(rt, "progLen")
				for k := 0; k < n; k++ {
					aop := vfC15ActorOp{dieAfter: -1}
					if rapid.IntRange(0, 4).Draw(rt, "isLoad") == 0 {
						aop.load = true
					} else {
						aop.op = vfC15GenRaceOp(rt, w, 100*(i+1)+10*k, near)
						if i == 0 {
							near = append(near, aop.op.db)
						}
					}
					if crash && rapid.IntRange(0, 1).Draw(rt, "dies") == 0 {
						aop.dieAfter = rapid.IntRange(0, 3).Draw(rt, "dieAfter")
					}
					a.prog = append(a.prog, aop)
				}
				a.res = make([]vfC15ActorRes, len(a.prog))
				for k := range a.res {
					a.res[k].aop = a.prog[k]
				}
				actors[i] = a
			}
			if kit.Known("C15", vfC15SigSameDBCreate) {
				touches := func(a *vfC15Actor, db int, onlyInsert bool) bool {
					for _, p := range a.prog {
						if !p.load && p.op.db == db && (!onlyInsert || p.op.kind == vfC15Insert) {
							return true
						}
					}
					return false
				}
				for k := range actors[1].prog {
					p := &actors[1].prog[k]
					if p.load {
						continue
					}
					if touches(actors[0], p.op.db, true) || (p.op.kind == vfC15Insert && touches(actors[0], p.op.db, false)) {
						p.load = true
						actors[1].res[k].aop = *p
						rec.Excluded(vfC15SigSameDBCreate)
					}
				}
			}
			if kit.Known("C15", vfC15SigDeleteFinalize) {
				// keep "Delete X on one node, Insert X on the other" out of the asserted domain while listed
				for k := range actors[1].prog {
					p := &actors[1].prog[k]
					if p.load || (p.op.kind != vfC15Insert && p.op.kind != vfC15Delete) {
						continue
					}
					want := vfC15Insert + vfC15Delete - p.op.kind
					for _, q := range actors[0].prog {
						if !q.load && q.op.db == p.op.db && q.op.kind == want {
							p.load = true
							actors[1].res[k].aop = *p
							rec.Excluded(vfC15SigDeleteFinalize)
							break
						}
					}
				}
			}
			progText := func(a *vfC15Actor) string {
				parts := make([]string, len(a.prog))
				for k, p := range a.prog {
					parts[k] = p.String()
				}
				return fmt.Sprintf("n%d:[%s]", a.node.id, strings.Join(parts, ","))
			}
			w.logf("race(crash=%v) %s %s", crash, progText(actors[0]), progText(actors[1]))

			// scheduling style: every call an independent choice, or bursts (a node issues 1-6 calls in a row)
			bursts := rapid.Bool().Draw(rt, "bursts")
			burstOf, burstLeft := 0, 0
			sched, switches, ok := w.runRace(actors, func(ready []*vfC15Actor) *vfC15Actor {
				if !bursts {
					return ready[rapid.IntRange(0, 1).Draw(rt, "sched")]
				}
				if burstLeft == 0 {
					burstOf = rapid.IntRange(0, 1).Draw(rt, "burstOf")
					burstLeft = rapid.IntRange(1, 6).Draw(rt, "burstLen")
				}
				burstLeft--
				return ready[burstOf]
			})
			if !ok {
				rec.Inconclusive()
				kit.InconclusiveLine("C15", "race: an actor did not reach its next storage call within 120s, or the machine was too slow to keep a patient wait from expiring: %s", w.render())
				rt.Skip("inconclusive")
			}
			w.logf("schedule[%s]", strings.Join(sched, " "))
			for _, a := range actors {
				if a.panicV != nil {
					w.violation("panic on node n%d during the race: %v", a.node.id, a.panicV)
				}
			}

			// what the two callers learned
			known := []*vfC15Cfg{}
			for _, c := range pre {
				if c != nil {
					known = append(known, c)
				}
			}
			progs := make([][]vfC15RaceOp, len(actors))
			anyUnknown := false
			var outcomes []string
			for ai, a := range actors {
				for _, r := range a.res {
					if !r.started {
						outcomes = append(outcomes, fmt.Sprintf("n%d.%s=not-run", a.node.id, r.aop))
						continue
					}
					if r.aop.load {
						switch {
						case r.crashed:
							outcomes = append(outcomes, fmt.Sprintf("n%d.Load=died", a.node.id))
							anyUnknown = true
						case r.loadErr != nil:
							outcomes = append(outcomes, fmt.Sprintf("n%d.Load=error", a.node.id))
							w.classes["concurrent_load_error"]++
						default:
							outcomes = append(outcomes, fmt.Sprintf("n%d.Load=[%s]", a.node.id, w.renderSeen(r.seen)))
							w.classes["concurrent_load_ok"]++
						}
						continue
					}
					known = append(known, r.res.made...)
					ro := vfC15RaceOp{op: r.aop.op, newCfg: r.res.newCfg}
					if len(r.res.saw) > 0 {
						ro.sawLast = r.res.saw[len(r.res.saw)-1]
					}
					label := ""
					switch {
					case r.crashed:
						ro.may, label, anyUnknown = true, "died["+strings.Join(a.node.conn.trace, ",")+"]", true
					case r.res.outcome == vfC15Ack:
						ro.must, label = true, "ack"
					case r.res.outcome == vfC15Rejected:
						label = fmt.Sprintf("rejected(%.80v)", r.res.err)
					default:
						ro.may, label, anyUnknown = true, fmt.Sprintf("failed(%.120v)", r.res.err), true
					}
					w.classes["race_"+strings.SplitN(label, "(", 2)[0][:3]]++
					outcomes = append(outcomes, fmt.Sprintf("n%d.%s=%s", a.node.id, r.aop.op, label))
					progs[ai] = append(progs[ai], ro)
				}
			}
			w.logf("%s", strings.Join(outcomes, " "))
			isKnown := func(c *vfC15Cfg) bool {
				for _, k := range known {
					if vfC15Same(k, c) {
						return true
					}
				}
				return false
			}
			// views taken during the race: every configuration complete (equal to one some node wrote in
			// full), one owner per collection; update callbacks likewise saw complete configurations
			for _, a := range actors {
				for _, r := range a.res {
					if r.aop.load && r.started && !r.crashed && r.loadErr == nil {
						if r.bad != "" {
							w.violation("load during the race: %s", r.bad)
						}
						for _, name := range w.dbNames {
							if c := r.seen[name]; c != nil && !isKnown(c) {
								w.violation("load during the race shows %s = %s, which no node ever wrote in full (a mixture): %s", name, c, c.norm)
							}
						}
						if msg := w.loadedOwnership("load during the race", r.seen); msg != "" {
							w.violation("%s", msg)
						}
					}
					for _, c := range r.res.saw {
						if !isKnown(c) {
							w.violation("update callback of %s was handed a configuration no node ever wrote in full: %s", r.aop.op, c.norm)
						}
					}
				}
			}
			if anyUnknown {
				w.interrupted = true
			}
			// quiescent view afterwards must be explained by a serial order of the acknowledged changes
			cands := vfC15Serial(pre, progs)
			for i := range w.model {
				w.model[i].allowed = nil
			}
			for _, st := range cands {
				for i, c := range st {
					w.model[i].add(c)
				}
			}
			final := w.NewNode()
			seen, bad, lerr := w.observe(final)
			if lerr != nil {
				w.logf("n%d.Load(after race)=error", final.id)
				w.violation("after the race a live node cannot load the configurations: %v", lerr)
			}
			w.logf("n%d.Load(after race)=[%s]", final.id, w.renderSeen(seen))
			if bad != "" {
				w.violation("after the race: %s", bad)
			}
			w.checkView("after the race", seen)
			vec := make([]*vfC15Cfg, nDB)
			match := false
			for i, name := range w.dbNames {
				vec[i] = seen[name]
			}
			for _, st := range cands {
				same := true
				for i := range st {
					same = same && vfC15Same(st[i], vec[i])
				}
				match = match || same
			}
			if !match {
				var cs []string
				for _, st := range cands {
					m := map[string]*vfC15Cfg{}
					for i, name := range w.dbNames {
						m[name] = st[i]
					}
					cs = append(cs, "["+w.renderSeen(m)+"]")
				}
				sort.Strings(cs)
				if len(cands) == 0 {
					w.violation("the acknowledged changes of the race cannot all have taken effect in any order (e.g. two creations of one database, two owners of one collection, or two updates on top of the same version) — one acknowledged change was lost")
				}
				w.violation("after the race the loaded configurations [%s] are not the outcome of the acknowledged changes in any order (an acknowledged change was lost or a half-applied state is visible); possible outcomes: %s", w.renderSeen(seen), strings.Join(cs, " "))
			}
			for i, name := range w.dbNames {
				w.model[i].allowed = []*vfC15Cfg{seen[name]}
			}
			w.probes(final, 900)
			bucket := "<0.1s"
			switch el := time.Since(started); {
			case el > 5*time.Second:
				bucket = ">5s"
			case el > time.Second:
				bucket = "1-5s"
			case el > 100*time.Millisecond:
				bucket = "0.1-1s"
			}
			vfC15FlushWorld(w, rec, switches >= 2, fmt.Sprintf("crash_mode=%v", crash), fmt.Sprintf("switches=%d", min(switches, 6)), fmt.Sprintf("wall(crash_mode=%v)%s", crash, bucket))
		})
	})
}

// ---------------------------------------------------------------------------------------------
// regression: the minimal reproductions of the listed findings, executed directly

func vfC15NewActor(w *vfC15World, id int, timeout time.Duration, prog ...vfC15ActorOp) *vfC15Actor {
	a := &vfC15Actor{id: id, req: make(chan string), grant: make(chan struct{}), done: make(chan struct{})}
	a.node = w.NewNode()
	a.node.bc.configRetryTimeout = timeout
	a.fixedTimeout = timeout
	a.prog = prog
	a.res = make([]vfC15ActorRes, len(prog))
	for k := range a.res {
		a.res[k].aop = prog[k]
	}
	return a
}

// TestVerif_C15_Regress prints KNOWN-FINDING for every listed finding that still reproduces. It never
// reports a violation: with an entry removed, the generated families fail on the shape themselves.
func TestVerif_C15_Regress(t *testing.T) {
	rec := kit.New("C15", "Regress")
	defer rec.Flush()
	ctx := base.TestCtx(t)
	absentAfter := func(w *vfC15World, db string) bool {
		seen, _, err := w.observe(w.NewNode())
		return err == nil && seen[db] == nil
	}

	// 1. update interrupted between the config write and the finalising registry write
	func() {
		w, err := vfC15NewWorld(t, "Regress", ctx, 2, vfC15MenuQuick)
		if err != nil {
			t.Fatalf("harness: %v", err)
		}
		defer w.Close()
		n1 := w.NewNode()
		n1.conn.arm(-1)
		r1 := w.exec(n1, vfC15Op{kind: vfC15Insert, db: 0, set: 0, payload: 1})
		n1.conn.arm(2)
		w.exec(n1, vfC15Op{kind: vfC15Update, db: 0, set: 1, payload: 2})
		n2 := w.NewNode()
		seen, _, lerr := w.observe(n2)
		n2.conn.arm(-1)
		r3 := w.exec(n2, vfC15Op{kind: vfC15Insert, db: 1, set: 0, payload: 3})
		still := r1.outcome == vfC15Ack && lerr == nil && seen["db0"] != nil && strings.Join(seen["db0"].colls, ",") == "s1.c2" && r3.outcome == vfC15Rejected
		rec.Case("Insert(db0,{c1}); Update(db0,{c2}) node dies after 2 writes; Load; Insert(db1,{c1})", true, fmt.Sprintf("reproduces=%v", still))
		vfC15RegressReport(vfC15SigStalePrev, still, fmt.Sprintf("collection released by an interrupted update stays blocked: Insert(db1,{c1}) = %v", r3.err))
	}()

	// 1b. interrupted delete: its marker claims the default collection
	func() {
		w, err := vfC15NewWorld(t, "Regress", ctx, 2, vfC15MenuFull)
		if err != nil {
			t.Fatalf("harness: %v", err)
		}
		defer w.Close()
		n1 := w.NewNode()
		n1.conn.arm(-1)
		r1 := w.exec(n1, vfC15Op{kind: vfC15Insert, db: 1, set: 0, payload: 1})
		n1.conn.arm(1)
		w.exec(n1, vfC15Op{kind: vfC15Delete, db: 1})
		n2 := w.NewNode()
		seen, _, lerr := w.observe(n2)
		n2.conn.arm(-1)
		r3 := w.exec(n2, vfC15Op{kind: vfC15Insert, db: 0, set: 5, payload: 3})
		still := r1.outcome == vfC15Ack && lerr == nil && seen["db1"] == nil && r3.outcome == vfC15Rejected
		rec.Case("Insert(db1,{c1}); Delete(db1) node dies after 1 write; Load; Insert(db0,{_default})", true, fmt.Sprintf("reproduces=%v", still))
		sig := vfC15SigDeleteMarkerPrev
		if kit.Known("C15", vfC15SigDeleteMarker) {
			sig = vfC15SigDeleteMarker
		}
		vfC15RegressReport(sig, still, fmt.Sprintf("default collection blocked by the registry entry of an interrupted delete of another database: Insert(db0,{_default}) = %v", r3.err))
		if !still {
			kit.Note("C15", "regress: %s no longer fails", vfC15SigDeleteMarker)
		}
	}()

	// 2. a change of database X by a node whose registry read predates another node's creation of X
	func() {
		w, err := vfC15NewWorld(t, "Regress", ctx, 2, vfC15MenuQuick)
		if err != nil {
			t.Fatalf("harness: %v", err)
		}
		defer w.Close()
		a := vfC15NewActor(w, 0, time.Millisecond, vfC15ActorOp{op: vfC15Op{kind: vfC15Insert, db: 0, set: 0, payload: 1}, dieAfter: -1})
		b := vfC15NewActor(w, 1, time.Millisecond, vfC15ActorOp{op: vfC15Op{kind: vfC15Update, db: 0, set: 1, payload: 2}, dieAfter: -1})
		granted := 0
		_, _, ok := w.runRace([]*vfC15Actor{a, b}, func(ready []*vfC15Actor) *vfC15Actor {
			granted++
			if granted == 1 {
				return b // b reads the (empty) registry
			}
			return a // then a creates db0 completely; b continues afterwards
		})
		if !ok {
			rec.Inconclusive()
			return
		}
		still := a.res[0].res.outcome == vfC15Ack && absentAfter(w, "db0")
		rec.Case("race: B.Update(db0) reads registry; A.Insert(db0) completes; B continues", true, fmt.Sprintf("reproduces=%v", still))
		vfC15RegressReport(vfC15SigSameDBCreate, still, "an acknowledged creation of db0 is deleted by a concurrent change of db0 that started from an older registry read")
	}()

	// 3. delete finalisation removes a database that was re-created meanwhile (no crash, no expired wait)
	func() {
		w, err := vfC15NewWorld(t, "Regress", ctx, 2, vfC15MenuQuick)
		if err != nil {
			t.Fatalf("harness: %v", err)
		}
		defer w.Close()
		n0 := w.NewNode()
		n0.conn.arm(-1)
		r0 := w.exec(n0, vfC15Op{kind: vfC15Insert, db: 0, set: 0, payload: 1})
		a := vfC15NewActor(w, 0, time.Millisecond, vfC15ActorOp{op: vfC15Op{kind: vfC15Delete, db: 0}, dieAfter: -1})
		b := vfC15NewActor(w, 1, time.Millisecond, vfC15ActorOp{op: vfC15Op{kind: vfC15Insert, db: 0, set: 1, payload: 2}, dieAfter: -1})
		sched, _, ok := w.runRace([]*vfC15Actor{a, b}, func(ready []*vfC15Actor) *vfC15Actor {
			if a.node.conn.mut < 2 {
				return a // until a has marked the registry and deleted the config document
			}
			return b // then b re-creates db0 completely; a's finalising step runs afterwards
		})
		if !ok {
			rec.Inconclusive()
			return
		}
		still := r0.outcome == vfC15Ack && a.res[0].res.outcome == vfC15Ack && b.res[0].res.outcome == vfC15Ack && absentAfter(w, "db0")
		rec.Case("race: A.Delete(db0) marks registry and deletes config; B.Insert(db0) completes; A finalises", true, fmt.Sprintf("reproduces=%v", still))
		vfC15RegressReport(vfC15SigDeleteFinalize, still, "B's acknowledged re-creation of db0 is gone after A's delete finalisation: ["+strings.Join(sched, " ")+"]")
	}()
}

// vfC15RegressReport: KNOWN-FINDING while a listed shape still reproduces; a note once it no longer does.
func vfC15RegressReport(sig string, still bool, what string) {
	switch {
	case still && kit.Known("C15", sig):
		kit.KnownFinding("C15", sig, what)
	case !still:
		kit.Note("C15", "regress: %s no longer fails", sig)
	}
}

// ---------------------------------------------------------------------------------------------
// a load on one node with COMPLETED changes of another node in between its storage calls

// vfC15Snapshot: the acknowledged state of every database (nil = absent); ok=false when some change
// had an unknown outcome (the state is then not definite).
func vfC15Snapshot(w *vfC15World) (st []*vfC15Cfg, ok bool) {
	st = make([]*vfC15Cfg, len(w.model))
	for i, d := range w.model {
		c, def := d.definite()
		if !def {
			return nil, false
		}
		st[i] = c
	}
	return st, true
}

func vfC15HasColl(colls []string, c string) bool {
	for _, x := range colls {
		if x == c {
			return true
		}
	}
	return false
}

// vfC15GenMove draws two operations that hand one collection from a database that owns it to another
// database: X releases c (update to a set without c, or delete), then Y takes c (insert or update to a
// set with c). ok=false when no database owns anything or the menu has no fitting sets.
func vfC15GenMove(rt *rapid.T, w *vfC15World, st []*vfC15Cfg, payload int) (ops []vfC15Op, ok bool) {
	var owners []int
	for i, c := range st {
		if c != nil {
			owners = append(owners, i)
		}
	}
	if len(owners) == 0 || len(st) < 2 {
		return nil, false
	}
	x := rapid.SampledFrom(owners).Draw(rt, "moveFrom")
	c := rapid.SampledFrom(st[x].colls).Draw(rt, "moveColl")
	var without, with []int
	for s := range w.menu {
		if vfC15HasColl(vfC15SetColls(w.menu[s]), c) {
			with = append(with, s)
		} else {
			without = append(without, s)
		}
	}
	if len(with) == 0 || len(without) == 0 {
		return nil, false
	}
	rel := rapid.IntRange(0, len(without)).Draw(rt, "releaseTo") // == len(without): delete X
	if rel == len(without) {
		ops = append(ops, vfC15Op{kind: vfC15Delete, db: x})
	} else {
		ops = append(ops, vfC15Op{kind: vfC15Update, db: x, set: without[rel], payload: payload})
	}
	y := rapid.IntRange(0, len(st)-2).Draw(rt, "moveTo")
	if y >= x {
		y++
	}
	kind := vfC15Update
	if st[y] == nil {
		kind = vfC15Insert
	}
	ops = append(ops, vfC15Op{kind: kind, db: y, set: rapid.SampledFrom(with).Draw(rt, "takeSet"), payload: payload + 1})
	return ops, true
}

// TestVerif_C15_LoadRace: node A runs GetDatabaseConfigs; before generated storage calls of that load
// (registry Get, config document Gets, the polls and roll-back writes that follow a mismatch) node B
// executes 1-3 generated create/update/delete operations from start to finish (acknowledged or
// rejected). Whenever A reads the store, it is therefore in a marker-free acknowledged state; the
// states A can possibly have read are the one at the start of the load and the one after each batch.
//
// Oracle (statement: a loading node sees for each database the complete previous or the complete new
// configuration with exactly the version the registry records for it, never a mixture; no two databases
// own one collection): a load that RETURNS must return, as a whole set, one of those states — every
// database of that state and no other, each configuration deep-equal (incl. version) to what that
// state had — and no collection twice. That is what the unchanged tree guarantees: GetDatabaseConfigs
// reads the registry once per attempt and accepts a config document only at exactly the version that
// registry snapshot records; a newer document fails the load (ErrConfigVersionMismatch), an older or
// missing one makes it wait, try a roll-back (refused by the registry CAS, because the registry moved)
// and re-read the registry. A load that fails is fine. The follow-up load without interference must show
// exactly the final acknowledged state at the versions of the raw registry (w.load), and every database
// can still be created, updated and deleted (w.probes).
//
// The loader's configRetryTimeout is 1 ms: whenever it waits, the store is in a completed state and
// the wait cannot be satisfied by anything but a further complete batch of B, which changes nothing in
// the reasoning above (expiry only leads to a roll-back attempt with a stale registry CAS). The number
// of polls inside such a wait depends on the clock, so the position of a SECOND batch is not
// replay-stable; the oracle does not depend on where batches land.
func TestVerif_C15_LoadRace(t *testing.T) {
	rec := kit.New("C15", "LoadRace")
	defer rec.Flush()
	ctx := base.TestCtx(t)
	rapid.Check(t, func(rt *rapid.T) {
		nDB := rapid.IntRange(2, 3).Draw(rt, "dbs")
		w, err := vfC15NewWorld(rt, "LoadRace", ctx, nDB, vfC15MenuFull)
		if err != nil {
			rt.Fatalf("harness: %v", err)
		}
		defer w.Close()
		kit.Guard(rt, "C15", "LoadRace", w.render, func() {
			writer := w.NewNode()
			for s, n := 0, rapid.IntRange(2, 6).Draw(rt, "setupOps"); s < n; s++ {
				w.step(writer, vfC15GenOp(rt, w, s+1), "")
			}
			w.load(writer, "before the load race")
			start, ok := vfC15Snapshot(w)
			if !ok {
				rt.Fatalf("harness: set-up left an indefinite model: %s", w.describeModel())
			}
			live := 0
			for _, c := range start {
				if c != nil {
					live++
				}
			}
			// injection points: call indices of the load (1 = its first registry read, which is not "inside")
			first := rapid.IntRange(2, 2+live).Draw(rt, "point") // an undisturbed load issues 2+live calls: registry, legacy key, one per database
			batches := map[int]int{first: rapid.IntRange(1, 3).Draw(rt, "batch")}
			if rapid.IntRange(0, 3).Draw(rt, "secondPoint") == 0 {
				batches[first+rapid.IntRange(1, 5).Draw(rt, "gap")] = rapid.IntRange(1, 2).Draw(rt, "batch2")
			}
			visible := [][]*vfC15Cfg{start}
			loader := w.NewNode()
			calls, ran, acked, indefinite, payload := 0, 0, 0, false, 500
			var callLog []string
			loader.conn.gate = func(call string) {
				calls++
				n := batches[calls]
				if n > 0 && !indefinite {
					ran++
					w.logf("n%d.Load: before call %d (%s) [%s]", loader.id, calls, call, strings.Join(callLog, ","))
					cur := visible[len(visible)-1]
					var ops []vfC15Op
					if rapid.IntRange(0, 2).Draw(rt, "move") > 0 {
						if mv, ok := vfC15GenMove(rt, w, cur, payload); ok {
							ops = mv
							if n < 2 {
								n = 2
							}
						}
					}
					for k := 0; k < n; k++ {
						payload += 10
						var op vfC15Op
						if k < len(ops) {
							op = ops[k]
						} else {
							op = vfC15GenOp(rt, w, payload)
						}
						if res := w.step(writer, op, "@load"); res.outcome == vfC15Ack {
							acked++
						}
					}
					st, ok := vfC15Snapshot(w)
					if !ok {
						indefinite = true
					} else {
						visible = append(visible, st)
					}
				}
				callLog = append(callLog, call)
			}
			loader.conn.arm(-1)
			seen, bad, lerr := w.observe(loader)
			loader.conn.gate = nil
			if indefinite {
				// an operation of B ended with an unknown outcome although nobody interfered with it
				rec.Inconclusive()
				kit.InconclusiveLine("C15", "loadrace: an operation of the writing node failed with unknown outcome: %s", w.render())
				rt.Skip("inconclusive")
			}
			final := visible[len(visible)-1]
			changed, moved := 0, false
			for i := range start {
				if !vfC15Same(start[i], final[i]) {
					changed++
				}
				if start[i] == nil {
					continue
				}
				for j := range final {
					if j != i && final[j] != nil && vfC15Overlap(start[i].colls, final[j].colls) != "" {
						moved = true
					}
				}
			}
			classes := []string{fmt.Sprintf("dbs=%d", nDB), fmt.Sprintf("batches_run_inside_load=%d", ran), fmt.Sprintf("databases_changed_during_load=%d", changed)}
			if ran > 0 {
				classes = append(classes, "interference_inside_load", fmt.Sprintf("acked_changes_inside_load=%d", min(acked, 4)))
			} else {
				classes = append(classes, "load_finished_before_injection_point")
			}
			if moved {
				classes = append(classes, "collection_moved_between_databases_during_load")
			}
			stateText := func(st []*vfC15Cfg) string {
				m := map[string]*vfC15Cfg{}
				for i, name := range w.dbNames {
					m[name] = st[i]
				}
				return "[" + w.renderSeen(m) + "]"
			}
			if lerr != nil {
				w.logf("n%d.Load(raced, %d calls)=error(%.100v)", loader.id, calls, lerr)
				classes = append(classes, "raced_load_failed")
				if ran == 0 {
					w.violation("a load nobody interfered with failed: %v", lerr)
				}
			} else {
				w.logf("n%d.Load(raced, %d calls)=[%s]", loader.id, calls, w.renderSeen(seen))
				classes = append(classes, "raced_load_returned")
				if bad != "" {
					w.violation("load raced by completed changes: %s", bad)
				}
				if msg := w.loadedOwnership("load raced by completed changes of another node", seen); msg != "" {
					w.violation("%s", msg)
				}
				match := -1
				for vi, st := range visible {
					same := true
					for i, name := range w.dbNames {
						c := seen[name]
						same = same && vfC15Same(st[i], c) && (c == nil || c.version == st[i].version)
					}
					if same {
						match = vi
					}
				}
				if match < 0 {
					var vs []string
					for _, st := range visible {
						vs = append(vs, stateText(st))
					}
					w.violation("the load returned [%s]: a set of configurations that never existed — the acknowledged states during the load were, in order, %s (a database is shown at a version the registry did not record together with the others)", w.renderSeen(seen), strings.Join(vs, " then "))
				}
				switch {
				case changed == 0:
					classes = append(classes, "returned_state=unchanged")
				case match == 0:
					classes = append(classes, "returned_state=before_the_changes")
				case match == len(visible)-1:
					classes = append(classes, "returned_state=after_the_changes")
				default:
					classes = append(classes, "returned_state=between_batches")
				}
			}
			// without interference: exactly the final acknowledged state, at the registry's versions
			w.load(loader, "after the load race")
			w.probes(w.NewNode(), 900)
			vfC15FlushWorld(w, rec, ran > 0 && acked > 0, classes...)
		})
	})
}
