package rest

// C15 — database configurations stay consistent across nodes and interrupted changes.
// Injected into package rest by the /verif driver (build overlay); never part of /repo.
//
// Nodes are bootstrapContexts over one rosmar bucket, each behind its own crash-injecting
// BootstrapConnection. The oracle is a small model written from the property statement: per
// database the set of configurations a load may legitimately show (the acknowledged one plus the
// ones of changes whose outcome is unknown because the changing node died).

import (
	"context"
	"encoding/json"
	"errors"
	"fmt"
	"net/http"
	"sort"
	"strings"
	"sync/atomic"
	"testing"
	"time"

	sgbucket "github.com/couchbase/sg-bucket"
	"github.com/couchbase/sync_gateway/base"
	kit "github.com/couchbase/sync_gateway/verifkit"
	"github.com/couchbaselabs/rosmar"
)

const (
	vfC15Group = PersistentConfigDefaultGroupID
	vfC15Scope = "s1"
)

var vfC15ErrDead = errors.New("vfC15: this node has crashed")

// Known finding: an update whose node dies after writing the new config document but before the
// finalising registry write leaves `previous_version` in the registry for good (loads do not clear it,
// and the conflict path answers 409 without waiting or repairing), so the collections the database
// gave up cannot be taken by any other database until the first database is changed again.
const vfC15SigStalePrev = "stale-previous-version-blocks-released-collections"

// Known finding: the registry entry of an interrupted delete (version 0-0, no scopes) is read by
// getCollectionConflicts as "owns the default collection" (empty scopes = default collection), so no
// other database can take _default._default until somebody touches the half-deleted name again.
const vfC15SigDeleteMarker = "interrupted-delete-marker-claims-default-collection"

// Residue of the above after its repair (073ec13 skips entries whose current or previous version is the
// 0-0 marker): the marker entry's own previous_version (the deleted version, recorded without scopes)
// is still read by getPreviousConflicts as "the default collection", so the same requests are now
// refused with 409 'update in progress'.
const vfC15SigDeleteMarkerPrev = "delete-marker-previous-version-claims-default-collection"

// vfC15OpenDeleteMarkerSig returns the listed-open signature that covers a request for the default
// collection blocked by the entry of an interrupted delete, or "".
func vfC15OpenDeleteMarkerSig() string {
	if kit.Known("C15", vfC15SigDeleteMarker) {
		return vfC15SigDeleteMarker
	}
	if kit.Known("C15", vfC15SigDeleteMarkerPrev) {
		return vfC15SigDeleteMarkerPrev
	}
	return ""
}

var vfC15BucketSeq atomic.Int64

// ---------------------------------------------------------------------------------------------
// crash-injecting / schedulable bootstrap connection

type vfC15Conn struct {
	base.BootstrapConnection
	node       int
	dead       bool
	mut        int  // mutating calls that reached the store since arm()
	applied    int  // ... and were applied successfully
	dieAfter   int  // -1: never; 0: die at the first mutating call (not applied); j>0: die when the j-th mutating call returns (applied, result lost)
	crashed    bool // the armed crash point was reached
	appliedAtC int  // applied count when the node died
	trace      []string
	gate       func(call string) // race family: blocks until the scheduler grants this call
}

func (c *vfC15Conn) arm(dieAfter int) {
	c.mut, c.applied, c.dieAfter, c.crashed, c.trace = 0, 0, dieAfter, false, nil
}

func vfC15ShortKey(key string) string {
	if key == base.SGRegistryKey {
		return "registry"
	}
	return strings.TrimPrefix(key, base.PersistentConfigPrefixWithoutGroupID)
}

// enter is called at the start of every intercepted call.
func (c *vfC15Conn) enter(call, key string, mutating bool) error {
	if c.dead {
		return vfC15ErrDead
	}
	if c.gate != nil {
		c.gate(call + " " + vfC15ShortKey(key))
	}
	if mutating && c.dieAfter == 0 && c.mut == 0 {
		c.dead, c.crashed, c.appliedAtC = true, true, 0
		c.trace = append(c.trace, "†"+call+" "+vfC15ShortKey(key))
		return vfC15ErrDead
	}
	return nil
}

// leave is called when a mutating call returns from the store.
func (c *vfC15Conn) leave(call, key string, err error) error {
	c.mut++
	if err == nil {
		c.applied++
		c.trace = append(c.trace, call+" "+vfC15ShortKey(key))
	} else {
		c.trace = append(c.trace, call+" "+vfC15ShortKey(key)+"!")
	}
	if c.dieAfter > 0 && c.mut == c.dieAfter {
		c.dead, c.crashed, c.appliedAtC = true, true, c.applied
		c.trace[len(c.trace)-1] += "†"
		return vfC15ErrDead
	}
	return err
}

func (c *vfC15Conn) GetMetadataDocument(ctx context.Context, bucket, key string, valuePtr any) (uint64, error) {
	if err := c.enter("Get", key, false); err != nil {
		return 0, err
	}
	return c.BootstrapConnection.GetMetadataDocument(ctx, bucket, key, valuePtr)
}

func (c *vfC15Conn) GetConfigBuckets(ctx context.Context) ([]string, error) {
	if c.dead {
		return nil, vfC15ErrDead
	}
	return c.BootstrapConnection.GetConfigBuckets(ctx)
}

func (c *vfC15Conn) KeyExists(ctx context.Context, bucket, key string) (bool, error) {
	if err := c.enter("Exists", key, false); err != nil {
		return false, err
	}
	return c.BootstrapConnection.KeyExists(ctx, bucket, key)
}

func (c *vfC15Conn) GetDocument(ctx context.Context, bucket, key string, rv any) (bool, error) {
	if err := c.enter("GetDoc", key, false); err != nil {
		return false, err
	}
	return c.BootstrapConnection.GetDocument(ctx, bucket, key, rv)
}

func (c *vfC15Conn) GetRawDocument(ctx context.Context, bucket, key string) ([]byte, bool, error) {
	if err := c.enter("GetRaw", key, false); err != nil {
		return nil, false, err
	}
	return c.BootstrapConnection.GetRawDocument(ctx, bucket, key)
}

func (c *vfC15Conn) InsertMetadataDocument(ctx context.Context, bucket, key string, value any) (uint64, error) {
	if err := c.enter("Insert", key, true); err != nil {
		return 0, err
	}
	cas, err := c.BootstrapConnection.InsertMetadataDocument(ctx, bucket, key, value)
	if e := c.leave("Insert", key, err); e != nil {
		return 0, e
	}
	return cas, nil
}

func (c *vfC15Conn) WriteMetadataDocument(ctx context.Context, bucket, key string, cas uint64, value any) (uint64, error) {
	if err := c.enter("Write", key, true); err != nil {
		return 0, err
	}
	casOut, err := c.BootstrapConnection.WriteMetadataDocument(ctx, bucket, key, cas, value)
	if e := c.leave("Write", key, err); e != nil {
		return 0, e
	}
	return casOut, nil
}

func (c *vfC15Conn) TouchMetadataDocument(ctx context.Context, bucket, key string, property, value string, cas uint64) (uint64, error) {
	if err := c.enter("Touch", key, true); err != nil {
		return 0, err
	}
	casOut, err := c.BootstrapConnection.TouchMetadataDocument(ctx, bucket, key, property, value, cas)
	if e := c.leave("Touch", key, err); e != nil {
		return 0, e
	}
	return casOut, nil
}

func (c *vfC15Conn) DeleteMetadataDocument(ctx context.Context, bucket, key string, cas uint64) error {
	if err := c.enter("Delete", key, true); err != nil {
		return err
	}
	err := c.BootstrapConnection.DeleteMetadataDocument(ctx, bucket, key, cas)
	return c.leave("Delete", key, err)
}

func (c *vfC15Conn) UpdateMetadataDocument(ctx context.Context, bucket, key string, cb func([]byte, uint64) ([]byte, error)) (uint64, error) {
	if err := c.enter("Update", key, true); err != nil {
		return 0, err
	}
	cas, err := c.BootstrapConnection.UpdateMetadataDocument(ctx, bucket, key, cb)
	if e := c.leave("Update", key, err); e != nil {
		return 0, e
	}
	return cas, nil
}

// ---------------------------------------------------------------------------------------------
// model

// vfC15Cfg is one complete configuration as the harness wrote it; nil stands for "database absent".
type vfC15Cfg struct {
	version string
	norm    string   // canonical JSON without the two time stamps
	colls   []string // scope.collection, sorted
}

func (c *vfC15Cfg) String() string {
	if c == nil {
		return "absent"
	}
	return c.version + "{" + strings.Join(c.colls, ",") + "}"
}

func vfC15Same(a, b *vfC15Cfg) bool {
	if a == nil || b == nil {
		return a == b
	}
	return a.norm == b.norm
}

type vfC15DBState struct {
	allowed []*vfC15Cfg // what a load may show; one element = definite
	// freed lists collection sets that belonged to an earlier version of this database whose update
	// was interrupted after the new config document was written (bookkeeping for classes only).
}

func (d *vfC15DBState) definite() (*vfC15Cfg, bool) {
	if len(d.allowed) == 1 {
		return d.allowed[0], true
	}
	return nil, false
}

func (d *vfC15DBState) allows(c *vfC15Cfg) bool {
	for _, a := range d.allowed {
		if vfC15Same(a, c) {
			return true
		}
	}
	return false
}

func (d *vfC15DBState) add(c *vfC15Cfg) {
	if !d.allows(c) {
		d.allowed = append(d.allowed, c)
	}
}

func (d *vfC15DBState) render() string {
	s := make([]string, len(d.allowed))
	for i, a := range d.allowed {
		s[i] = a.String()
	}
	return strings.Join(s, "|")
}

func vfC15Normalise(c *DatabaseConfig) (*vfC15Cfg, error) {
	b, err := json.Marshal(c)
	if err != nil {
		return nil, err
	}
	var m map[string]any
	if err := json.Unmarshal(b, &m); err != nil {
		return nil, err
	}
	delete(m, "updated_at")
	delete(m, "created_at")
	nb, err := json.Marshal(m)
	if err != nil {
		return nil, err
	}
	out := &vfC15Cfg{version: c.Version, norm: string(nb)}
	if len(c.Scopes) == 0 {
		out.colls = []string{"_default._default"}
	}
	for sn, sc := range c.Scopes {
		for cn := range sc.Collections {
			out.colls = append(out.colls, sn+"."+cn)
		}
	}
	sort.Strings(out.colls)
	return out, nil
}

func vfC15Overlap(a, b []string) string {
	for _, x := range a {
		for _, y := range b {
			if x == y {
				return x
			}
		}
	}
	return ""
}

// ---------------------------------------------------------------------------------------------
// operations

const (
	vfC15Insert = iota
	vfC15Update
	vfC15Delete
)

type vfC15Op struct {
	kind    int
	db      int
	set     int // index into the world's collection-set menu (ignored by delete)
	payload int
}

func (o vfC15Op) String() string {
	switch o.kind {
	case vfC15Insert:
		return fmt.Sprintf("Insert(db%d,set%d,p%d)", o.db, o.set, o.payload)
	case vfC15Update:
		return fmt.Sprintf("Update(db%d,set%d,p%d)", o.db, o.set, o.payload)
	}
	return fmt.Sprintf("Delete(db%d)", o.db)
}

// vfC15Menus: collection sets databases may ask for; every pair of entries of a menu that shares a
// collection is an ownership conflict the registry has to arbitrate. "" is a config with no scopes at
// all (the implicit default collection); "_default._default" names the default collection explicitly;
// the model treats both as the one collection _default._default.
var vfC15MenuQuick = [][]string{{"c1"}, {"c2"}, {"c1", "c2"}, {""}}
var vfC15MenuFull = [][]string{{"c1"}, {"c2"}, {"c1", "c2"}, {"c3"}, {"c2", "c3"}, {""}, {"_default._default"}}

func vfC15Implicit(set []string) bool { return len(set) == 1 && set[0] == "" }

// vfC15Split returns scope and collection of a menu entry.
func vfC15Split(c string) (string, string) {
	if i := strings.Index(c, "."); i >= 0 {
		return c[:i], c[i+1:]
	}
	return vfC15Scope, c
}

func vfC15SetColls(set []string) []string {
	if vfC15Implicit(set) {
		return []string{"_default._default"}
	}
	out := make([]string, len(set))
	for i, c := range set {
		sc, cn := vfC15Split(c)
		out[i] = sc + "." + cn
	}
	sort.Strings(out)
	return out
}

type vfC15Outcome int

const (
	vfC15Ack      vfC15Outcome = iota // acknowledged to the caller
	vfC15Rejected                     // refused by validation: exists / not found / collection conflict
	vfC15Failed                       // any other error: outcome unknown to the caller
)

func (o vfC15Outcome) String() string { return [...]string{"ack", "rejected", "failed"}[o] }

type vfC15Result struct {
	outcome vfC15Outcome
	err     error
	newCfg  *vfC15Cfg   // the configuration this operation tried to establish (nil for delete / when it never got that far)
	saw     []*vfC15Cfg // update: configurations handed to the callback
	made    []*vfC15Cfg // every complete configuration this operation built (one per callback invocation)
	sawBad  string      // update: callback was handed something outside the allowed set
}

func vfC15Classify(err error) vfC15Outcome {
	if err == nil {
		return vfC15Ack
	}
	if errors.Is(err, base.ErrAlreadyExists) || errors.Is(err, base.ErrNotFound) {
		return vfC15Rejected
	}
	var he *base.HTTPError
	if errors.As(err, &he) && (he.Status == http.StatusConflict || he.Status == http.StatusNotFound || he.Status == http.StatusPreconditionFailed) {
		return vfC15Rejected
	}
	return vfC15Failed
}

// ---------------------------------------------------------------------------------------------
// world

type vfC15Node struct {
	id   int
	bc   *bootstrapContext
	conn *vfC15Conn
}

type vfC15World struct {
	tb          kit.TB
	test        string
	ctx         context.Context
	bucket      string
	rb          *rosmar.Bucket
	ds          sgbucket.DataStore
	menu        [][]string
	dbNames     []string
	model       []*vfC15DBState
	interrupted bool // some change was interrupted (or failed with unknown outcome) in this world
	log         []string
	nodeSeq     int
	timeout     time.Duration
	excluded    map[string]int // occurrences of open known-finding shapes that were not asserted
	classes     map[string]int
}

func vfC15NewWorld(tb kit.TB, test string, ctx context.Context, nDB int, menu [][]string) (*vfC15World, error) {
	name := fmt.Sprintf("vfc15_%d", vfC15BucketSeq.Add(1))
	rb, err := rosmar.OpenBucket(rosmar.InMemoryURL, name, rosmar.CreateOrOpen)
	if err != nil {
		return nil, err
	}
	ds, err := rb.NamedDataStore(ctx, base.DefaultScopeAndCollectionName())
	if err != nil {
		_ = rb.CloseAndDelete(ctx)
		return nil, err
	}
	w := &vfC15World{tb: tb, test: test, ctx: ctx, bucket: name, rb: rb, ds: ds, menu: menu, timeout: time.Millisecond,
		excluded: map[string]int{}, classes: map[string]int{}}
	for i := 0; i < nDB; i++ {
		w.dbNames = append(w.dbNames, fmt.Sprintf("db%d", i))
		w.model = append(w.model, &vfC15DBState{allowed: []*vfC15Cfg{nil}})
	}
	return w, nil
}

func (w *vfC15World) Close() {
	_ = w.rb.CloseAndDelete(w.ctx)
}

func (w *vfC15World) render() string { return strings.Join(w.log, "; ") }

func (w *vfC15World) logf(format string, args ...any) {
	w.log = append(w.log, fmt.Sprintf(format, args...))
}

func (w *vfC15World) violation(format string, args ...any) {
	kit.Violation(w.tb, "C15", w.test, w.render(), format, args...)
}

func (w *vfC15World) NewNode() *vfC15Node {
	w.nodeSeq++
	cluster, err := base.NewRosmarCluster(rosmar.InMemoryURL, false)
	if err != nil {
		w.tb.Fatalf("NewRosmarCluster: %v", err)
	}
	conn := &vfC15Conn{BootstrapConnection: cluster, node: w.nodeSeq, dieAfter: -1}
	bc := &bootstrapContext{Connection: conn, configRetryTimeout: w.timeout, sgVersion: *base.ProductVersion, clusterCompatVersion: base.NodeClusterCompatVersion}
	return &vfC15Node{id: w.nodeSeq, bc: bc, conn: conn}
}

func (w *vfC15World) scopesFor(set []string, payload int) ScopesConfig {
	if vfC15Implicit(set) {
		return nil
	}
	out := ScopesConfig{}
	for _, c := range set {
		sc, cn := vfC15Split(c)
		if _, ok := out[sc]; !ok {
			out[sc] = ScopeConfig{Collections: CollectionsConfig{}}
		}
		fn := fmt.Sprintf(`function(doc){channel("p%d_%s")}`, payload, cn)
		out[sc].Collections[cn] = &CollectionConfig{SyncFn: &fn}
	}
	return out
}

// applyPayload writes the generated content of op into a DbConfig the way the admin API replaces the
// user-supplied part of a config: several independent fields carry the payload so that a mixture of
// two configurations cannot equal either.
func (w *vfC15World) applyPayload(dbc *DbConfig, op vfC15Op) {
	dbc.Scopes = w.scopesFor(w.menu[op.set], op.payload)
	dbc.RevsLimit = base.Ptr(uint32(1000 + op.payload))
	dbc.OldRevExpirySeconds = base.Ptr(uint32(300 + op.payload))
	dbc.SessionCookieName = fmt.Sprintf("sess_p%d", op.payload)
	if len(dbc.Scopes) == 0 {
		fn := fmt.Sprintf(`function(doc){channel("p%d")}`, op.payload)
		dbc.Sync = &fn
	} else {
		dbc.Sync = nil
	}
}

func (w *vfC15World) insertConfig(op vfC15Op) (*DatabaseConfig, error) {
	dbc := DbConfig{Name: w.dbNames[op.db], BucketConfig: BucketConfig{Bucket: base.Ptr(w.bucket)}, Index: &IndexConfig{NumReplicas: base.Ptr(uint(0))}}
	w.applyPayload(&dbc, op)
	version, err := GenerateDatabaseConfigVersionID(w.ctx, "", &dbc)
	if err != nil {
		return nil, err
	}
	return &DatabaseConfig{Version: version, SGVersion: base.ProductVersion.String(), DbConfig: dbc}, nil
}

// exec runs one operation on a node and reports what the caller of the API learned.
func (w *vfC15World) exec(n *vfC15Node, op vfC15Op) vfC15Result {
	var res vfC15Result
	name := w.dbNames[op.db]
	var err error
	switch op.kind {
	case vfC15Insert:
		cfg, e := w.insertConfig(op)
		if e != nil {
			w.tb.Fatalf("harness: building config: %v", e)
		}
		_, err = n.bc.InsertConfig(w.ctx, w.bucket, vfC15Group, cfg)
		// normalised after the call: InsertConfig fills in the metadata id before its first write
		res.newCfg, e = vfC15Normalise(cfg)
		if e != nil {
			w.tb.Fatalf("harness: normalise: %v", e)
		}
		res.made = append(res.made, res.newCfg)
	case vfC15Update:
		_, err = n.bc.UpdateConfig(w.ctx, w.bucket, vfC15Group, name, func(existing *DatabaseConfig) (*DatabaseConfig, error) {
			seen, e := vfC15Normalise(existing)
			if e != nil {
				return nil, e
			}
			res.saw = append(res.saw, seen)
			if !w.model[op.db].allows(seen) && res.sawBad == "" {
				res.sawBad = seen.String() + " " + seen.norm
			}
			w.applyPayload(&existing.DbConfig, op)
			existing.SGVersion = base.ProductVersion.String()
			v, e := GenerateDatabaseConfigVersionID(w.ctx, existing.Version, &existing.DbConfig)
			if e != nil {
				return nil, e
			}
			existing.Version = v
			res.newCfg, e = vfC15Normalise(existing)
			res.made = append(res.made, res.newCfg)
			return existing, e
		})
	case vfC15Delete:
		err = n.bc.DeleteConfig(w.ctx, w.bucket, vfC15Group, name)
	}
	res.err = err
	res.outcome = vfC15Classify(err)
	return res
}

// expect computes from the model whether op is valid; ok=false when the model state it depends on is
// not definite.
func (w *vfC15World) expect(op vfC15Op) (valid bool, why string, ok bool) {
	cur, def := w.model[op.db].definite()
	if !def {
		return false, "", false
	}
	switch op.kind {
	case vfC15Delete:
		return cur != nil, "exists", true
	case vfC15Insert:
		if cur != nil {
			return false, "already exists", true
		}
	case vfC15Update:
		if cur == nil {
			return false, "does not exist", true
		}
	}
	want := vfC15SetColls(w.menu[op.set])
	for i, d := range w.model {
		if i == op.db {
			continue
		}
		for _, a := range d.allowed {
			if a == nil {
				continue
			}
			if c := vfC15Overlap(want, a.colls); c != "" {
				if _, def := d.definite(); !def {
					return false, "", false
				}
				return false, "collection " + c + " owned by " + w.dbNames[i], true
			}
		}
	}
	return true, "valid", true
}

// ---------------------------------------------------------------------------------------------
// raw view of the bucket (harness's own reading of the documented document formats)

type vfC15RegVersion struct {
	Version string `json:"version"`
	Scopes  map[string]struct {
		Collections []string `json:"collections"`
	} `json:"scopes"`
}

type vfC15RegDB struct {
	vfC15RegVersion
	Previous *vfC15RegVersion `json:"previous_version"`
}

type vfC15RegDoc struct {
	ConfigGroups map[string]struct {
		Databases map[string]*vfC15RegDB `json:"databases"`
	} `json:"config_groups"`
}

type vfC15Raw struct {
	registry []byte
	cfgs     map[string][]byte
	reg      vfC15RegDoc
}

func (w *vfC15World) raw() *vfC15Raw {
	r := &vfC15Raw{cfgs: map[string][]byte{}}
	v, _, err := w.ds.GetRaw(w.ctx, base.SGRegistryKey)
	if err == nil {
		r.registry = v
		if e := json.Unmarshal(v, &r.reg); e != nil {
			w.violation("registry document is not valid JSON: %v: %s", e, v)
		}
	} else if !base.IsDocNotFoundError(err) {
		w.tb.Fatalf("harness: raw read of registry: %v", err)
	}
	for _, name := range w.dbNames {
		v, _, err := w.ds.GetRaw(w.ctx, PersistentConfigKey(w.ctx, vfC15Group, name))
		if err == nil {
			r.cfgs[name] = v
		} else if !base.IsDocNotFoundError(err) {
			w.tb.Fatalf("harness: raw read of config: %v", err)
		}
	}
	return r
}

func (r *vfC15Raw) dbs() map[string]*vfC15RegDB {
	g, ok := r.reg.ConfigGroups[vfC15Group]
	if !ok {
		return nil
	}
	return g.Databases
}

func (v *vfC15RegVersion) colls() []string {
	var out []string
	if len(v.Scopes) == 0 {
		return []string{"_default._default"}
	}
	for sn, sc := range v.Scopes {
		for _, cn := range sc.Collections {
			out = append(out, sn+"."+cn)
		}
	}
	sort.Strings(out)
	return out
}

// clean: no in-flight marker anywhere and registry and config documents agree.
func (r *vfC15Raw) clean() bool {
	dbs := r.dbs()
	for name, d := range dbs {
		if d.Previous != nil || d.Version == "0-0" || d.Version == "0-1" {
			return false
		}
		doc, ok := r.cfgs[name]
		if !ok {
			return false
		}
		var v struct {
			Version string `json:"version"`
		}
		if json.Unmarshal(doc, &v) != nil || v.Version != d.Version {
			return false
		}
	}
	for name := range r.cfgs {
		if _, ok := dbs[name]; !ok {
			return false
		}
	}
	return true
}

func (r *vfC15Raw) equal(o *vfC15Raw) string {
	if string(r.registry) != string(o.registry) {
		return fmt.Sprintf("registry document changed:\n before %s\n after  %s", r.registry, o.registry)
	}
	if len(r.cfgs) != len(o.cfgs) {
		return fmt.Sprintf("set of config documents changed: %d -> %d", len(r.cfgs), len(o.cfgs))
	}
	for k, v := range r.cfgs {
		if string(o.cfgs[k]) != string(v) {
			return fmt.Sprintf("config document of %s changed:\n before %s\n after  %s", k, v, o.cfgs[k])
		}
	}
	return ""
}

// staleBlock reports whether op asks for a collection that only a *stale* previous_version entry of
// another database still lists: the registry entry carries previous_version although the config
// document already is at the registry's current version (the interrupted update is complete, nobody is
// going to finalise it).
func (w *vfC15World) staleBlock(r *vfC15Raw, op vfC15Op) bool {
	if op.kind == vfC15Delete {
		return false
	}
	want := vfC15SetColls(w.menu[op.set])
	for name, d := range r.dbs() {
		if name == w.dbNames[op.db] || d.Previous == nil {
			continue
		}
		var v struct {
			Version string `json:"version"`
		}
		if doc, ok := r.cfgs[name]; !ok || json.Unmarshal(doc, &v) != nil || v.Version != d.Version {
			continue
		}
		if vfC15Overlap(want, d.Previous.colls()) != "" && vfC15Overlap(want, d.colls()) == "" {
			return true
		}
	}
	return false
}

// deleteMarkerBlock reports whether op asks for the default collection while the registry holds the
// marker of an in-progress delete of another database.
func (w *vfC15World) deleteMarkerBlock(r *vfC15Raw, op vfC15Op) bool {
	if op.kind == vfC15Delete || vfC15Overlap(vfC15SetColls(w.menu[op.set]), []string{"_default._default"}) == "" {
		return false
	}
	for name, d := range r.dbs() {
		if name == w.dbNames[op.db] {
			continue
		}
		if d.Version == "0-0" && len(d.Scopes) == 0 {
			return true
		}
		// the same marker carried along as previous_version by a re-creation that was interrupted in turn
		// (a database that really uses the default collection lists it explicitly, also in previous_version)
		if d.Previous != nil && len(d.Previous.Scopes) == 0 {
			return true
		}
	}
	return false
}

// registryOwnership: no collection listed under the current version of two databases.
func (w *vfC15World) registryOwnership(r *vfC15Raw) {
	owner := map[string]string{}
	names := make([]string, 0)
	for name := range r.dbs() {
		names = append(names, name)
	}
	sort.Strings(names)
	for _, name := range names {
		d := r.dbs()[name]
		if d.Version == "0-0" {
			continue // in-progress delete: owns nothing
		}
		if d.Version == "0-1" {
			w.classes["registry_invalid_marker"]++
			continue // marked invalid for manual repair: never loaded
		}
		for _, c := range d.colls() {
			if o, dup := owner[c]; dup {
				w.violation("registry lists collection %s under two databases: %s and %s\nregistry: %s", c, o, name, r.registry)
			}
			owner[c] = name
		}
	}
}

// ---------------------------------------------------------------------------------------------
// load + oracle

// observe runs GetDatabaseConfigs and normalises the result.
func (w *vfC15World) observe(n *vfC15Node) (map[string]*vfC15Cfg, string, error) {
	configs, err := n.bc.GetDatabaseConfigs(w.ctx, w.bucket, vfC15Group)
	if err != nil {
		return nil, "", err
	}
	seen := map[string]*vfC15Cfg{}
	for _, c := range configs {
		nc, e := vfC15Normalise(c)
		if e != nil {
			return nil, "", e
		}
		if _, dup := seen[c.Name]; dup {
			return seen, "load returned database " + c.Name + " twice", nil
		}
		known := false
		for _, k := range w.dbNames {
			known = known || k == c.Name
		}
		if !known {
			return seen, "load returned an unknown database " + c.Name, nil
		}
		seen[c.Name] = nc
	}
	return seen, "", nil
}

func (w *vfC15World) renderSeen(seen map[string]*vfC15Cfg) string {
	parts := make([]string, len(w.dbNames))
	for i, name := range w.dbNames {
		parts[i] = name + "=" + seen[name].String()
	}
	return strings.Join(parts, " ")
}

// loadedOwnership: no collection in two loaded databases.
func (w *vfC15World) loadedOwnership(what string, seen map[string]*vfC15Cfg) string {
	owner := map[string]string{}
	for _, name := range w.dbNames {
		c := seen[name]
		if c == nil {
			continue
		}
		for _, col := range c.colls {
			if o, dup := owner[col]; dup {
				return fmt.Sprintf("%s: collection %s is owned by two loaded databases: %s and %s", what, col, o, name)
			}
			owner[col] = name
		}
	}
	return ""
}

// checkView: clauses about a load made while nothing else is running that do not need the model:
// every loaded version is the registry's, the registry's live entries are all loaded, single owner
// per collection in the loaded set and in the registry.
func (w *vfC15World) checkView(what string, seen map[string]*vfC15Cfg) {
	r := w.raw()
	regDBs := r.dbs()
	for _, name := range w.dbNames {
		c := seen[name]
		if c == nil {
			continue
		}
		d, ok := regDBs[name]
		if !ok {
			w.violation("%s: loaded database %s is not in the registry\nregistry: %s", what, name, r.registry)
		}
		if d.Version != c.version {
			w.violation("%s: loaded %s carries version %s, the registry records %s\nregistry: %s", what, name, c.version, d.Version, r.registry)
		}
	}
	for _, name := range w.dbNames {
		d, ok := regDBs[name]
		if !ok || d.Version == "0-0" || d.Version == "0-1" {
			continue
		}
		if seen[name] == nil {
			w.violation("%s: registry records %s at version %s but the load did not return it\nregistry: %s", what, name, d.Version, r.registry)
		}
	}
	if msg := w.loadedOwnership(what, seen); msg != "" {
		w.violation("%s", msg)
	}
	w.registryOwnership(r)
}

// load runs GetDatabaseConfigs on the node while nothing else is running and checks every clause of
// the statement that speaks about what a load shows. It narrows the model to what was seen.
func (w *vfC15World) load(n *vfC15Node, what string) {
	seen, bad, err := w.observe(n)
	if n.conn.crashed {
		return // the loading node died inside its own recovery writes; nothing was observed
	}
	if err != nil {
		w.logf("n%d.Load(%s)=error", n.id, what)
		w.violation("%s: a live node cannot load the configurations: %v", what, err)
	}
	w.logf("n%d.Load(%s)=[%s]", n.id, what, w.renderSeen(seen))
	if bad != "" {
		w.violation("%s: %s", what, bad)
	}
	for i, name := range w.dbNames {
		if !w.model[i].allows(seen[name]) {
			detail := "absent"
			if seen[name] != nil {
				detail = seen[name].norm
			}
			w.violation("%s: load shows %s = %s, which is neither the acknowledged nor an in-flight configuration (allowed: %s)\nloaded: %s", what, name, seen[name], w.model[i].render(), detail)
		}
	}
	w.checkView(what, seen)
	// narrow: what a quiescent load showed is from now on the state of the database
	for i, name := range w.dbNames {
		if len(w.model[i].allowed) > 1 {
			if vfC15Same(w.model[i].allowed[0], seen[name]) {
				w.classes["in_flight_resolved_to_previous"]++
			} else {
				w.classes["in_flight_resolved_to_new"]++
			}
		}
		w.model[i].allowed = []*vfC15Cfg{seen[name]}
	}
}

// vfC15Pre is what the harness notes before an operation starts.
type vfC15Pre struct {
	valid, definite bool
	why             string
	before          *vfC15Raw
	wasClean        bool
}

func (w *vfC15World) begin(op vfC15Op) vfC15Pre {
	p := vfC15Pre{}
	p.valid, p.why, p.definite = w.expect(op)
	p.before = w.raw()
	p.wasClean = p.before.clean()
	return p
}

// step executes one operation on a live node (no crash armed, nobody else running), checks the
// result against the model and updates the model.
func (w *vfC15World) step(n *vfC15Node, op vfC15Op, tag string) vfC15Result {
	pre := w.begin(op)
	n.conn.arm(-1)
	res := w.exec(n, op)
	w.judge(n, op, pre, res, tag)
	return res
}

// judge checks the result of a completed operation (the node is alive and nobody else was running).
func (w *vfC15World) judge(n *vfC15Node, op vfC15Op, pre vfC15Pre, res vfC15Result, tag string) {
	valid, why, definite, before, wasClean := pre.valid, pre.why, pre.definite, pre.before, pre.wasClean
	errText := ""
	if res.err != nil {
		errText = fmt.Sprintf(" (%v)", res.err)
		if len(errText) > 160 {
			errText = errText[:160] + "…)"
		}
	}
	w.logf("n%d.%s%s=%s%s", n.id, op, tag, res.outcome, errText)
	st := w.model[op.db]
	if res.sawBad != "" {
		w.violation("%s: the update callback was handed a configuration that is neither acknowledged nor in flight: %s (allowed: %s)", op, res.sawBad, st.render())
	}
	switch res.outcome {
	case vfC15Ack:
		if definite && !valid {
			w.classes["ack_although_model_says_"+strings.ReplaceAll(why, " ", "_")]++
			// not a statement clause by itself; the loads that follow decide (ownership, versions)
		}
		if op.kind == vfC15Delete {
			st.allowed = []*vfC15Cfg{nil}
		} else {
			if res.newCfg == nil {
				w.violation("%s acknowledged without a configuration having been produced", op)
			}
			st.allowed = []*vfC15Cfg{res.newCfg}
		}
		w.classes["ack_"+[...]string{"insert", "update", "delete"}[op.kind]]++
	case vfC15Rejected:
		if definite && valid {
			if w.interrupted {
				if w.staleBlock(before, op) && kit.Known("C15", vfC15SigStalePrev) {
					w.excluded[vfC15SigStalePrev]++
					break
				}
				if sig := vfC15OpenDeleteMarkerSig(); sig != "" && w.deleteMarkerBlock(before, op) {
					w.excluded[sig]++
					break
				}
				w.violation("%s is valid (%s) but was rejected after an interrupted change: %v [mutating calls: %s]", op, w.describeModel(), res.err, strings.Join(n.conn.trace, ", "))
			}
			w.classes["valid_op_rejected_without_interruption"]++
			kit.Note("C15", "valid operation rejected in a world without interruption: %s: %v", w.render(), res.err)
		}
		if wasClean {
			if diff := before.equal(w.raw()); diff != "" {
				w.violation("%s was rejected (%v) but did not leave everything as it was: %s", op, res.err, diff)
			}
			w.classes["rejected_checked_byte_identical"]++
		}
	case vfC15Failed:
		// outcome unknown to the caller: from here on the change is in flight
		if definite && valid && w.interrupted {
			w.violation("%s is valid (%s) but failed after an interrupted change within the code's own retry budget: %v [mutating calls: %s]", op, w.describeModel(), res.err, strings.Join(n.conn.trace, ", "))
		}
		if !w.interrupted {
			w.classes["op_failed_without_interruption"]++
			kit.Note("C15", "operation failed in a world without interruption: %s: %v", w.render(), res.err)
		}
		w.inflight(op, res)
	}
}

func (w *vfC15World) inflight(op vfC15Op, res vfC15Result) {
	st := w.model[op.db]
	w.interrupted = true
	if op.kind == vfC15Delete {
		st.add(nil)
	} else if res.newCfg != nil {
		st.add(res.newCfg)
	}
}

func (w *vfC15World) describeModel() string {
	parts := make([]string, len(w.model))
	for i, d := range w.model {
		parts[i] = w.dbNames[i] + "=" + d.render()
	}
	return strings.Join(parts, " ")
}

// crashStep executes op on node n, which dies after j mutating calls reached the store (j = 0: at its
// first mutating call, which is not applied; j > 0: when the j-th returns — applied, result lost). If
// the operation finishes before that point it is judged as a normal completed operation.
func (w *vfC15World) crashStep(n *vfC15Node, op vfC15Op, j int) (reached bool, res vfC15Result) {
	pre := w.begin(op)
	n.conn.arm(j)
	res = w.exec(n, op)
	if !n.conn.crashed {
		n.conn.dieAfter = -1
		w.judge(n, op, pre, res, "")
		return false, res
	}
	w.logf("n%d.%s†%d[%s]", n.id, op, j, strings.Join(n.conn.trace, ","))
	if res.sawBad != "" {
		w.violation("%s: the update callback was handed a configuration that is neither acknowledged nor in flight: %s (allowed: %s)", op, res.sawBad, w.model[op.db].render())
	}
	w.inflight(op, res)
	w.classes["crash_in="+[...]string{"insert", "update", "delete"}[op.kind]]++
	return true, res
}

// crashLoad runs GetDatabaseConfigs on a node that dies after j mutating calls of its own recovery
// writes (registry roll-back). Returns false when the load finished without reaching that point (it
// was then checked as a normal load).
func (w *vfC15World) crashLoad(n *vfC15Node, j int) bool {
	n.conn.arm(j)
	w.load(n, "recovery")
	if !n.conn.crashed {
		n.conn.dieAfter = -1
		return false
	}
	w.interrupted = true
	w.logf("n%d.Load†%d[%s]", n.id, j, strings.Join(n.conn.trace, ","))
	w.classes["crash_in=load"]++
	return true
}

// probes: after everything else, every database can still be created, updated and deleted.
func (w *vfC15World) probes(n *vfC15Node, payload int) {
	for i := range w.dbNames {
		cur, def := w.model[i].definite()
		if !def {
			w.tb.Fatalf("harness: probes on an indefinite model")
		}
		set := -1
		if cur == nil {
			for s := range w.menu {
				if ok, _, _ := w.expect(vfC15Op{kind: vfC15Insert, db: i, set: s}); ok {
					set = s
					break
				}
			}
			if set < 0 {
				continue
			}
			w.step(n, vfC15Op{kind: vfC15Insert, db: i, set: set, payload: payload}, "?")
		} else {
			for s := range w.menu {
				if strings.Join(vfC15SetColls(w.menu[s]), ",") == strings.Join(cur.colls, ",") {
					set = s
				}
			}
			if set < 0 {
				continue
			}
		}
		w.step(n, vfC15Op{kind: vfC15Update, db: i, set: set, payload: payload + 1}, "?")
		w.load(n, "after probe update")
		w.step(n, vfC15Op{kind: vfC15Delete, db: i}, "?")
		w.load(n, "after probe delete")
	}
}

// ---------------------------------------------------------------------------------------------
// bounded-exhaustive crash-point enumeration

func vfC15Alphabet(nDB, nSets int) []vfC15Op {
	var out []vfC15Op
	for d := 0; d < nDB; d++ {
		for s := 0; s < nSets; s++ {
			out = append(out, vfC15Op{kind: vfC15Insert, db: d, set: s})
		}
		for s := 0; s < nSets; s++ {
			out = append(out, vfC15Op{kind: vfC15Update, db: d, set: s})
		}
		out = append(out, vfC15Op{kind: vfC15Delete, db: d})
	}
	return out
}

// vfC15Payload: inserts carry a payload that depends only on the requested set, so deleting and
// re-creating a database with the same request reproduces the identical version string (the shape
// the delete-recovery code compares versions for); updates carry a per-position payload.
func vfC15Payload(op vfC15Op, pos int) int {
	if op.kind == vfC15Insert {
		return op.set
	}
	return 10 * (pos + 1)
}

// vfC15RunSequence executes seq; crashAt < 0: no crash (reference run, returns the number of mutating
// calls each operation issued); otherwise operation crashAt runs on a node that dies after j applied
// mutating calls, a fresh node loads and continues.
func vfC15RunSequence(tb kit.TB, test string, ctx context.Context, nDB int, menu [][]string, seq []vfC15Op, crashAt, j, total int, direct bool, rec *kit.Rec) (muts []int) {
	w, err := vfC15NewWorld(tb, test, ctx, nDB, menu)
	if err != nil {
		tb.Fatalf("harness: new world: %v", err)
	}
	defer w.Close()
	node := w.NewNode()
	muts = make([]int, len(seq))
	strictlyInside, followed := false, false
	for i, op := range seq {
		if i == crashAt {
			reached, _ := w.crashStep(node, op, j)
			if !reached {
				kit.Note("C15", "crash point %d of %s not reached on replay: %s", j, op, w.render())
				rec.Inconclusive()
				return muts
			}
			strictlyInside = j >= 1 && j < total
			node = w.NewNode()
			if !direct {
				w.load(node, "recovery")
			}
			continue
		}
		node.conn.arm(-1)
		w.step(node, op, "")
		muts[i] = node.conn.mut
		if crashAt >= 0 && i > crashAt {
			followed = true
		}
		w.load(node, "after "+op.String())
	}
	w.probes(node, 900)
	if rec != nil {
		for sig, n := range w.excluded {
			for ; n > 0; n-- {
				rec.Excluded(sig)
			}
		}
		classes := []string{}
		for k, v := range w.classes {
			for ; v > 0; v-- {
				classes = append(classes, k)
			}
		}
		if direct {
			w.logf("(no recovery load)")
		}
		if crashAt >= 0 {
			classes = append(classes, fmt.Sprintf("crash_after_applied=%d", j))
		} else {
			classes = append(classes, "no_crash")
		}
		if strictlyInside {
			classes = append(classes, "crash_strictly_inside")
		}
		if direct {
			classes = append(classes, "next_op_without_recovery_load")
		}
		rec.Case(w.render(), strictlyInside && followed, classes...)
	}
	return muts
}

func TestVerif_C15_Enum(t *testing.T) {
	rec := kit.New("C15", "Enum")
	defer rec.Flush()
	ctx := base.TestCtx(t)
	nDB := kit.Param("dbs", 2)
	length := kit.Param("len", 3)
	menu := vfC15MenuQuick
	if kit.Param("fullmenu", 0) == 1 {
		menu = vfC15MenuFull
	}
	alpha := vfC15Alphabet(nDB, len(menu))
	total := 1
	for i := 0; i < length; i++ {
		total *= len(alpha)
	}
	shard, shards := kit.Shard()
	stride := kit.Param("stride", 1) // thorough 4-op/3-db space is sampled with a fixed stride when > 1
	start := time.Now()
	var sequences, runs int64
	for idx := shard * stride; idx < total; idx += shards * stride {
		seq := make([]vfC15Op, length)
		x := idx
		for p := length - 1; p >= 0; p-- {
			seq[p] = alpha[x%len(alpha)]
			x /= len(alpha)
		}
		for p := range seq {
			seq[p].payload = vfC15Payload(seq[p], p)
		}
		sequences++
		muts := vfC15RunSequence(t, "Enum", ctx, nDB, menu, seq, -1, 0, 0, false, rec)
		runs++
		for ci := range seq {
			for j := 0; j <= muts[ci]; j++ {
				if muts[ci] == 0 {
					break // the operation writes nothing (it is rejected before its first write): no crash point
				}
				vfC15RunSequence(t, "Enum", ctx, nDB, menu, seq, ci, j, muts[ci], false, rec)
				runs++
				if j >= 1 && j < muts[ci] && ci < len(seq)-1 {
					// registry and config document out of step and another operation follows: also the
					// variant in which the next node acts without having loaded first
					vfC15RunSequence(t, "Enum", ctx, nDB, menu, seq, ci, j, muts[ci], true, rec)
					runs++
				}
			}
		}
	}
	rec.Class("sequences", sequences)
	rec.Class("runs", runs)
	kit.Note("C15", "Enum shard %d/%d: %d sequences of %d operations over %d databases (alphabet %d), %d runs in %.1fs", shard, shards, sequences, length, nDB, len(alpha), runs, time.Since(start).Seconds())
	if shards == 1 && stride == 1 {
		rec.SetExhaustive()
	}
}
