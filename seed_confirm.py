#!/usr/bin/env python3
"""seed_confirm.py <ID> <dir-with patch.diff, demo_test.go, meta.json> <name> [--skip-suite] [--checks C01,C20]

Confirms an independently written seeded change in a scratch worktree (never /repo):
  1. the demonstration passes on the unchanged tree,
  2. the patch applies and compiles, the demonstration fails with it,
  3. the existing test suite of every touched package still passes with it (demo removed),
  4. runs the listed /verif checks (default: the property's own) against the patched tree and records
     which caught it.
On success stores /verif/seeded/<name>/{patch.diff, demo_test.go, meta.json}. The worktree is removed."""
import json, os, re, shutil, subprocess, sys, time

V = os.path.dirname(os.path.abspath(__file__))
sys.path.insert(0, V)
import importlib.machinery, importlib.util
_l = importlib.machinery.SourceFileLoader("vcheck", os.path.join(V, "check"))
_s = importlib.util.spec_from_loader("vcheck", _l); vcheck = importlib.util.module_from_spec(_s); _l.exec_module(vcheck)


def sh(cmd, cwd, env, timeout=3600):
    t0 = time.time()
    p = subprocess.run(cmd, cwd=cwd, env=env, shell=isinstance(cmd, str), capture_output=True, text=True, timeout=timeout)
    return p.returncode, (p.stdout + p.stderr), time.time() - t0


def main():
    args = [a for a in sys.argv[1:] if not a.startswith("--")]
    flags = [a for a in sys.argv[1:] if a.startswith("--")]
    cid, src, name = args[0], os.path.abspath(args[1]), args[2]
    skip_suite = "--skip-suite" in flags
    checks = [cid]
    for f in flags:
        if f.startswith("--checks="):
            checks = f.split("=", 1)[1].split(",")
    wt = "/tmp/vf-confirm-%s" % name
    env = vcheck.go_env()
    env["SG_TEST_LOG_LEVEL"] = "error"
    subprocess.run(["git", "-C", "/repo", "worktree", "remove", "--force", wt], capture_output=True)
    r = subprocess.run(["git", "-C", "/repo", "worktree", "add", "--detach", wt, "HEAD"], capture_output=True, text=True)
    if r.returncode:
        print("cannot create worktree", r.stderr); return 3
    result = {"confirmed": False}
    try:
        meta = json.load(open(os.path.join(src, "meta.json")))
        demo_src = open(os.path.join(src, "demo_test.go")).read()
        m = re.search(r"place in:\s*([\w/\.]+)", demo_src)
        pkgdir = (m.group(1) if m else "db/").strip("/")
        demo_dst = os.path.join(wt, pkgdir, "zz_seed_demo_test.go")
        tests = re.findall(r"^func (Test\w+)\(", demo_src, re.M)
        run = "^(%s)$" % "|".join(tests)
        demo_cmd = ["go", "test", "-vet=off", "-count=1", "-run", run, "./" + pkgdir + "/"]
        if "--detect-only" in flags:
            # re-run only the /verif checks against the changed tree and refresh the stored detection record
            rc, out, _ = sh(["git", "apply", os.path.join(src, "patch.diff")], wt, env)
            if rc != 0:
                print("patch does not apply:", out); return 1
            det = {}
            for c in checks:
                e2 = dict(os.environ, VERIF_REPO=wt)
                p = subprocess.run([os.path.join(V, "check"), c, "--tier", "quick"], env=e2, capture_output=True, text=True)
                lines = [l for l in p.stdout.splitlines() if l.startswith(("VIOLATION", "violation in job", "INCONCLUSIVE", "OK "))]
                det[c] = {"exit": p.returncode, "lines": [l[:500] for l in lines[:6]]}
                print("check %s on changed tree: exit %d %s" % (c, p.returncode, {0: "MISSED", 1: "caught", 2: "inconclusive"}.get(p.returncode)))
            mp = os.path.join(V, "seeded", name, "meta.json")
            m2 = json.load(open(mp))
            m2["confirmation"]["result"].setdefault("detection_history", []).append(m2["confirmation"]["result"].get("detection"))
            m2["confirmation"]["result"]["detection"] = det
            m2["confirmation"]["result"]["detection_verif_commit"] = subprocess.run(["git", "-C", V, "rev-parse", "--short", "HEAD"], capture_output=True, text=True).stdout.strip()
            json.dump(m2, open(mp, "w"), indent=1)
            return 0
        shutil.copyfile(os.path.join(src, "demo_test.go"), demo_dst)
        rc, out, t = sh(demo_cmd, wt, env)
        print("demo on unchanged tree: rc=%d (%.0fs)" % (rc, t))
        result["demo_unchanged_rc"] = rc
        if rc != 0:
            print(out[-3000:]); return 1
        rc, out, _ = sh(["git", "apply", os.path.join(src, "patch.diff")], wt, env)
        if rc != 0:
            print("patch does not apply:", out); return 1
        rc, out, _ = sh(["git", "diff", "--stat"], wt, env)
        touched = sorted({os.path.dirname(l.split("|")[0].strip()) for l in out.splitlines() if "|" in l and l.split("|")[0].strip().endswith(".go")})
        result["touched_packages"] = touched
        rc, out, t = sh(["go", "build", "./..."], wt, env)
        if rc != 0:
            print("does not compile:", out[-2000:]); return 1
        rc, out, t = sh(demo_cmd, wt, env)
        print("demo with change: rc=%d (%.0fs)" % (rc, t))
        result["demo_changed_rc"] = rc
        result["demo_failure_tail"] = out[-1500:]
        if rc == 0:
            print("demo does not fail with the change"); return 1
        os.remove(demo_dst)
        if not skip_suite:
            stable = set(json.load(open("/root/.vp/BASELINE.json")).get("stable_pass", []))
            suite_env = {k: v for k, v in env.items() if k != "SG_TEST_LOG_LEVEL"}  # some repo tests assert on log output
            for pkg in touched:
                rc, out, t = sh(["go", "test", "-json", "-vet=off", "-count=1", "-timeout", "45m", "./" + pkg + "/"], wt, suite_env, timeout=3600)
                failed = set()
                for line in out.splitlines():
                    try:
                        ev = json.loads(line)
                    except Exception:
                        continue
                    if ev.get("Action") == "fail" and ev.get("Test"):
                        failed.add("%s::%s" % (ev.get("Package"), ev["Test"]))
                regress = sorted(f for f in failed if f in stable)
                # the machine is shared and loaded: re-run each failing stable test alone before believing it
                still = []
                for f in regress:
                    top = f.split("::", 1)[1].split("/")[0]
                    ok = False
                    for _ in range(2):
                        rc2, out2, _t = sh(["go", "test", "-vet=off", "-count=1", "-timeout", "20m", "-run", "^%s$" % top, "./" + pkg + "/"], wt, suite_env, timeout=1500)
                        if rc2 == 0:
                            ok = True
                            break
                    print("  re-run of %s alone: %s" % (top, "pass (load flake)" if ok else "FAIL"))
                    if not ok:
                        still.append(f)
                result.setdefault("flaky_under_load", []).extend(sorted(set(regress) - set(still)))
                regress = still
                print("existing suite %s with change: rc=%d (%.0fs) failed=%d of which in stable baseline=%d" % (pkg, rc, t, len(failed), len(regress)))
                result["suite_" + pkg] = {"rc": rc, "wall_s": round(t), "failed_not_in_stable_baseline": sorted(failed - set(regress))[:20], "failed_stable": regress[:20]}
                if regress:
                    print("\n".join(regress[:20]))
                    return 1
                if rc != 0 and not failed:
                    print(out[-2000:])
                    return 1
        det = {}
        for c in checks:
            e2 = dict(os.environ, VERIF_REPO=wt)
            p = subprocess.run([os.path.join(V, "check"), c, "--tier", "quick"], env=e2, capture_output=True, text=True)
            lines = [l for l in p.stdout.splitlines() if l.startswith(("VIOLATION", "violation in job", "INCONCLUSIVE", "OK "))]
            det[c] = {"exit": p.returncode, "lines": [l[:500] for l in lines[:6]]}
            print("check %s on changed tree: exit %d %s" % (c, p.returncode, {0: "MISSED", 1: "caught", 2: "inconclusive"}.get(p.returncode)))
            for l in lines[:4]:
                print("   ", l[:300])
        result["detection"] = det
        result["confirmed"] = True
        out_dir = os.path.join(V, "seeded", name)
        os.makedirs(out_dir, exist_ok=True)
        shutil.copyfile(os.path.join(src, "patch.diff"), os.path.join(out_dir, "patch.diff"))
        shutil.copyfile(os.path.join(src, "demo_test.go"), os.path.join(out_dir, "demo_test.go"))
        meta["confirmation"] = {"ran": "seed_confirm.py: demo on unchanged tree (pass), patch applied + go build ./..., demo with change (fail), existing suites of touched packages with change (pass)%s, /verif quick checks against the changed tree" % (" [suite skipped]" if skip_suite else ""),
                                "result": result, "head": subprocess.run(["git", "-C", "/repo", "rev-parse", "--short", "HEAD"], capture_output=True, text=True).stdout.strip()}
        json.dump(meta, open(os.path.join(out_dir, "meta.json"), "w"), indent=1)
        return 0
    finally:
        subprocess.run(["git", "-C", "/repo", "worktree", "remove", "--force", wt], capture_output=True)
        shutil.rmtree(os.path.join(V, ".build"), ignore_errors=False) if False else None


if __name__ == "__main__":
    sys.exit(main())
