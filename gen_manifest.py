#!/usr/bin/env python3
"""Regenerates MANIFEST.json from checks.json (claimed checks) and properties.jsonl (everything else
goes to not_applicable with the reason recorded in checks.json["_not_claimed"])."""
import json, os
V = os.path.dirname(os.path.abspath(__file__))
import glob
cfg = {os.path.basename(p)[:-5]: json.load(open(p)) for p in sorted(glob.glob(os.path.join(V, "checks.d", "*.json")))}
props = [json.loads(l) for l in open(os.path.join(V, "properties.jsonl")) if l.strip()]
not_claimed = json.load(open(os.path.join(V, "not_claimed.json"))) if os.path.exists(os.path.join(V, "not_claimed.json")) else {}
claimed_ids = set(open(os.path.join(V, 'claimed.txt')).read().split())
checks, na = [], []
for p in props:
    pid = p["id"]
    c = cfg.get(pid)
    if c and pid in claimed_ids:
        m = c["manifest"]
        checks.append({
            "property_id": pid,
            "quick_cmd": "./check %s --tier quick" % pid,
            "thorough_cmd": "./check %s --tier thorough" % pid,
            "evidence_file": "evidence/%s.json" % pid,
            "replay_cmd_template": "./check %s --replay {path}" % pid,
            "engine": "pbt-driver",
            "level_claimed": {"category": c.get("level", "exploration"), "text": m["text"], "design_ref": m.get("design_ref", "DESIGN.md §4 " + pid)},
            "level_note": m["note"],
            "technique": m["technique"],
        })
    else:
        na.append({"property_id": pid, "reason": not_claimed.get(pid, "check not built yet in this round; see DESIGN.md §4 for the planned generator and oracle")})
man = {
    "version": 1,
    "setup_cmd": "./setup",
    "hooks": {
        "guard": "verif",
        "enable": "none needed: harness files are injected into packages db/rest/auth/base with `go test -overlay` (see DESIGN.md §2.1); the tag `verif` is reserved and unused",
        "baseline_off_cmd": "cd /repo && go test -mod=mod -json -vet=off -count=1 -timeout 25m ./...",
        "source_commits": [],
        "add_only": True,
    },
    "engines": [{
        "name": "pbt-driver", "path": "check",
        "serves_properties": [c["property_id"] for c in checks],
        "kind_free_text": "Python driver that builds in-package Go harnesses (pgregory.net/rapid state machines, bounded-exhaustive enumerators, native go fuzz targets) against /repo's working tree via build overlay, runs them sharded, and writes evidence",
    }],
    "checks": checks,
    "notes": "Genuine defects found are in known-findings.json (fixed ones name their fix: commit in /repo). Exit 2 = inconclusive (build failure / time budget), never a violation.",
    "not_applicable": na,
}
json.dump(man, open(os.path.join(V, "MANIFEST.json"), "w"), indent=1)
print("claimed:", [c["property_id"] for c in checks], "not claimed:", len(na))
