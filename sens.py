#!/usr/bin/env python3
"""sens.py <ID> <mutation.json|patch.diff> [check args...]

Applies a planted change to a scratch worktree of /repo (never /repo itself), runs the check against
it (VERIF_REPO) and reports whether it turned red — development aid for DESIGN §6 rule 5.
mutation.json: {"what": "...", "edits": [{"file": "db/x.go", "old": "...", "new": "..."}]}"""
import json, os, subprocess, sys
V = os.path.dirname(os.path.abspath(__file__))
cid, spec, rest = sys.argv[1], os.path.abspath(sys.argv[2]), sys.argv[3:]
wt = os.environ.get("VERIF_SENS_WT", "/tmp/vf-sens-wt")
def git(*a, **k): return subprocess.run(["git", "-C"] + list(a), capture_output=True, text=True, **k)
if not os.path.isdir(wt):
    r = git("/repo", "worktree", "add", "--detach", wt, "HEAD")
    if r.returncode: print(r.stderr); sys.exit(3)
head = git("/repo", "rev-parse", "HEAD").stdout.strip()
git(wt, "checkout", "-q", "--detach", head); git(wt, "checkout", "-q", "--", "."); git(wt, "clean", "-fdq")
if spec.endswith(".json"):
    m = json.load(open(spec))
    for e in m["edits"]:
        p = os.path.join(wt, e["file"]); s = open(p).read()
        if s.count(e["old"]) != 1:
            print("edit does not apply uniquely (%d matches) in %s: %r" % (s.count(e["old"]), e["file"], e["old"][:80])); sys.exit(3)
        open(p, "w").write(s.replace(e["old"], e["new"]))
else:
    r = git(wt, "apply", spec)
    if r.returncode: print("PATCH DOES NOT APPLY", r.stderr); sys.exit(3)
env = dict(os.environ, VERIF_REPO=wt)
r = subprocess.run([os.path.join(V, "check"), cid] + rest, env=env, capture_output=True, text=True)
git(wt, "checkout", "-q", "--", "."); git(wt, "clean", "-fdq")
for line in r.stdout.splitlines():
    if line.startswith(("VIOLATION", "INCONCLUSIVE", "OK ", "violation in job", "KNOWN-FINDING", "BUILD FAILED")):
        print(line[:400])
print("sens %s %s: exit %d (%s)" % (cid, os.path.basename(spec), r.returncode, {0: "MISSED", 1: "caught", 2: "inconclusive"}.get(r.returncode, "?")))
sys.exit(r.returncode)
