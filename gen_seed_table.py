#!/usr/bin/env python3
"""Regenerates the table of independently seeded changes in DESIGN.md (between the SEED-TABLE markers) from seeded/*/meta.json."""
import glob, json, os, re
V = os.path.dirname(os.path.abspath(__file__))
rows = []
for d in sorted(glob.glob(os.path.join(V, "seeded", "*"))):
    mp = os.path.join(d, "meta.json")
    if not os.path.isfile(mp): continue
    m = json.load(open(mp)); name = os.path.basename(d)
    res = m.get("confirmation", {}).get("result", {})
    det = res.get("detection", {}) or {}
    hist = [h for h in res.get("detection_history", []) if h]
    caught = [c for c, v in det.items() if v.get("exit") == 1]
    missed_first = bool(hist) and not any(v.get("exit") == 1 for v in hist[0].values())
    status = ("caught by " + ", ".join(caught)) if caught else "MISSED (" + ", ".join("%s exit %s" % (c, v.get("exit")) for c, v in det.items()) + ")"
    if caught and missed_first: status += " — missed at first, check strengthened"
    summ = (m.get("summary") or "").replace("\n", " ").replace("|", "/")
    need = (m.get("needs_to_manifest") or "").replace("\n", " ").replace("|", "/")
    rows.append("| `%s` | %s | %s | %s |" % (name, summ[:260], need[:260], status))
tbl = "| seeded change | what it does | what it needs to manifest | result (quick tier) |\n|---|---|---|---|\n" + "\n".join(rows) + "\n"
p = os.path.join(V, "DESIGN.md"); s = open(p).read()
a, b = "<!-- SEED-TABLE-BEGIN -->", "<!-- SEED-TABLE-END -->"
if a not in s:
    s += "\n\n### 8.6 Independently seeded changes (generated from seeded/*/meta.json by gen_seed_table.py)\n\n" + a + "\n" + b + "\n"
s = s[:s.index(a) + len(a)] + "\n" + tbl + s[s.index(b):]
open(p, "w").write(s)
print(len(rows), "seeded changes;", sum(1 for r in rows if "MISSED" in r), "currently missed")
