#!/bin/bash
# validates MANIFEST.json and every evidence file against the schemas
cd "$(dirname "$0")"
python3-vt - <<'PY'
import json, jsonschema, glob, sys
ok = True
try:
    jsonschema.validate(json.load(open('MANIFEST.json')), json.load(open('/root/.vp/MANIFEST.schema.json')))
except Exception as e:
    ok = False; print("MANIFEST invalid:", e)
sch = json.load(open('/root/.vp/EVIDENCE.schema.json'))
for f in sorted(glob.glob('evidence/*.json')):
    try:
        jsonschema.validate(json.load(open(f)), sch)
    except Exception as e:
        ok = False; print(f, "invalid:", str(e)[:300])
print("valid" if ok else "INVALID")
sys.exit(0 if ok else 1)
PY
