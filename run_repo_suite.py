#!/usr/bin/env python3
"""run_repo_suite.py [pkg ...] — runs the repository's own tests (unedited) on a scratch worktree of /repo HEAD
and compares the failures with the stable baseline (/root/.vp/BASELINE.json). Failing stable tests are re-run
alone (twice) before being reported, because the sandbox is shared and timing-based tests flake under load.
Development aid for `fix:` commits; not part of any registered check."""
import json, os, subprocess, sys, time
V = os.path.dirname(os.path.abspath(__file__))
sys.path.insert(0, V)
import importlib.machinery, importlib.util
_l = importlib.machinery.SourceFileLoader("vcheck", os.path.join(V, "check"))
_s = importlib.util.spec_from_loader("vcheck", _l); vcheck = importlib.util.module_from_spec(_s); _l.exec_module(vcheck)
env = vcheck.go_env(); env.pop("SG_TEST_LOG_LEVEL", None)
wt = "/tmp/vf-suite-wt"
subprocess.run(["git", "-C", "/repo", "worktree", "remove", "--force", wt], capture_output=True)
subprocess.run(["git", "-C", "/repo", "worktree", "add", "--detach", wt, "HEAD"], check=True, capture_output=True)
stable = set(json.load(open("/root/.vp/BASELINE.json"))["stable_pass"])
pkgs = sys.argv[1:] or ["./..."]
t0 = time.time()
p = subprocess.run(["go", "test", "-mod=mod", "-json", "-vet=off", "-count=1", "-timeout", "60m", "-p", "4"] + pkgs, cwd=wt, env=env, capture_output=True, text=True)
passed, failed = set(), set()
for line in p.stdout.splitlines():
    try: ev = json.loads(line)
    except Exception: continue
    if ev.get("Test"):
        k = "%s::%s" % (ev["Package"], ev["Test"])
        if ev.get("Action") == "pass": passed.add(k)
        if ev.get("Action") == "fail": failed.add(k)
reg = sorted(f for f in failed if f in stable)
print("ran in %.0fs: passed=%d failed=%d failed-in-stable=%d stable-not-seen=%d" % (time.time() - t0, len(passed), len(failed), len(reg), len([s for s in stable if s not in passed and s not in failed])))
still = []
for f in reg:
    pkg, test = f.split("::", 1); top = test.split("/")[0]
    rel = "./" + pkg.replace("github.com/couchbase/sync_gateway/", "") + "/" if pkg != "github.com/couchbase/sync_gateway" else "./"
    ok = False
    for _ in range(2):
        r = subprocess.run(["go", "test", "-mod=mod", "-vet=off", "-count=1", "-timeout", "30m", "-run", "^%s$" % top, rel], cwd=wt, env=env, capture_output=True, text=True)
        if r.returncode == 0: ok = True; break
    print("  %s alone: %s" % (f, "pass (flaky under load)" if ok else "FAIL"))
    if not ok: still.append(f)
print("REGRESSIONS:", still)
subprocess.run(["git", "-C", "/repo", "worktree", "remove", "--force", wt], capture_output=True)
sys.exit(1 if still else 0)
